"""C07 — four declaration styles of one nested group: real parsers vs Model/C07Decl.v + Model/C07Parse.v."""
import json
import os
import sys

from tie import framework as fw
from tie.framework import g_bool, g_list, g_opt, g_pair, g_str, g_Z

PROP = "C07"
IMPORTS = "From JV Require Import Lib.Base Model.C07Decl Model.C07Parse Spec.C07Spec Corr.C07Judge."
RULE = ("seeded member lists under group keys g, grp, my_g, my-g, c, h, p, s (s may equal the nested member's name): 1-5 leaves (names with shared prefixes and a "
        "leading underscore; types int, str, bool, Optional[int|str|List[int]], List[int|str]; defaults conforming / None "
        "/ absent; ~30% lists that the signature rules rewrite), in ~22% one dataclass-typed member (a nested sub-group of "
        "1-3 leaves, with or without a default instance, at a random position), in ~20% (50% of the nested ones) "
        "declaration-time default overrides on a random subset of the leaves (default=<dataclass instance> for the "
        "dataclass style, default=<dict> — complete or only the overridden members — for the class style, plain default= "
        "for the dotted / inner-parser styles). The dataclass / class styles are built from the members, the dotted / "
        "inner-parser styles from their normal form under the documented signature rules (the judge recomputes it in "
        "Coq). Per declaration one TABLE case (the four real parsers' _actions and required_args, or the exception of the "
        "declaration, against the model compilers incl. the set_defaults pass) and 10 RUN cases: one input (parse_args "
        "with dotted options of leaves and sub-group leaves, abbreviations, '+' appends, whole-group / whole-sub-group "
        "--g=JSON, --cfg=config strings, unknown options; parse_object; parse_string; nested mappings and dotted keys; "
        "each with 0-2 environment variables incl. APP_<G>, APP_<G>__<SUB>, APP_<G>__<F>, APP_CFG; valid and invalid "
        "values, unknown keys, scalar / string / null / empty mapping for the group or sub-group key) through the four "
        "real parsers; scalars for the group key are truthy and falsy (5, [1], true, 0, false, []). Each declaration "
        "also carries a construction HISTORY for the inner-parser style: in 2/3 of them the component parser (and a "
        "nested component) was USED on its own before being attached — parse_env, parse_args with env, plain "
        "parse_args, help, get_defaults or dump, with default_env=True / env_prefix=COMPONENT — or was first OFFERED to "
        "another parent that refuses it (ActionParser conflicting keys, ValueError) — which must not change "
        "anything (the model compilers do not depend on it); refused_self = the component was offered to ITSELF "
        "(ValueError). Each declaration also carries a VARIANT of how the signature styles' type is made, which the "
        "model compilers do not take either: the dataclass style's type is a dataclass, a @final class, an attrs class "
        "or a pydantic model (is_dataclass_like accepts all four); the class style's default= is a dict, a Namespace or "
        "a lazy_instance; in ~30% the class / dataclass-like type has 1-2 EXTRA parameters (any type, with or without "
        "default) that the declaration skips by skip={names} or skip={number of leading parameters} (with skip={names} "
        "and a complete default= mapping the mapping names them too). non-trivial = table case with >=2 leaves or run case with a non-empty input; distinct = distinct "
        "(declaration, input, observation)")
TRUSTED = [
    "Coq 8.16.1 kernel + vm_compute",
    "tie/impl/c07_styles.py (builds the four parsers, reads _actions / required_args, canonicalises results) and the "
    "Gallina printer in tie/props/c07.py",
    "hand-written models coq/Model/C07Decl.v and coq/Model/C07Parse.v, tied by per-case agreement evaluated inside Coq",
    "parse_value_or_config / json_or_yaml_load enter the model as finite observed tables (Section variables pv, jl in "
    "the theorems: every statement holds for ANY loaders)",
]
ASSUMPTIONS = [
    "argparse splits 'opt=value' at the first '=' and hands long options to _parse_optional/_get_option_tuples as modelled",
    "config strings on --cfg / APP_CFG do not name existing files; declared defaults conform to their types or are None",
    "type conversion (other properties' business) is modelled only for int, str, bool, Optional, List and is "
    "idempotent on its own results; floats and other YAML kinds are never generated",
    "the model's namespace has two levels (group key -> leaf path): the leaves of a nested sub-group are kept under "
    "their dotted paths (the runner flattens what it observes the same way); one nesting level below the group; "
    "group keys have no dot and no leading '-', member names are distinct identifiers (finding class 6 otherwise: "
    "never generated, not listed); for a declaration with a nested sub-group no config (object, string, --cfg, "
    "APP_CFG) gives the group key or the sub-group key a non-mapping (string / null / scalar): the flattened namespace "
    "cannot hold a leaf that later becomes a branch again (on flat declarations these inputs are generated: classes 3, 4)",
    "a declaration overrides only defaults of parameters that have one (with an override present every parameter has a "
    "signature default: a dataclass instance needs a value for each)",
    "the add_argument styles are declared from the normal form of the field list under the documented signature rules "
    "(Optional without default -> default None, default None -> Optional[T], non-required '_' names not offered)",
    "no config gives an UNDECLARED key an empty mapping (since fix a58b0fc such a key is rejected unless it names an "
    "argument group; the signature styles register the raw group key, e.g. 'my-g', as a group name, so "
    "parse_object({'my-g': {}}) is accepted by the dataclass / class styles and rejected by the dotted / inner-parser "
    "styles: a residual difference that the two-level table model (no group names) does not cover; see notes/C07.md)",
    "the only construction history modelled as irrelevant is a stand-alone USE of the inner-parser style's component "
    "parser before attaching (parse / help / defaults / dump) or a refused attach to another parent; modifying it after "
    "attaching, or a SUCCESSFUL attach of one component to two parents, is not generated",
    "the signature styles' type variants (kind of dataclass-like type, dict / Namespace / lazy-instance default=, "
    "skipped extra parameters) are harness dimensions the model is constant in: that they are irrelevant is tied, not "
    "proved; attrs / pydantic types are used only for flat declarations without '_' names (both libraries rename or hide "
    "such fields); a @final class takes its default= as a complete mapping (an instance is refused by design); a lazy "
    "instance is only used when every parameter it does not name has a default",
    "the top-level 'cfg' entry of the result (list of config paths) is the same in all styles and is not compared",
    "exception classes and message texts are not compared (accept / reject / exit / other)",
]
EXHAUSTIVE = {"quick": False, "thorough": False}
FINDING_CLASSES = {
    1: "dotted-whole-group-argv",
    2: "dotted-whole-group-env",
    3: "dotted-group-key-string-or-null",
    8: "hyphen-key-default-override",
}
JUDGE = "judge"
STYLES = ["dotted", "dcls", "cls", "inner"]

GKEYS = ["g", "g", "g", "grp", "my_g", "my-g", "c", "h", "p", "s", "my-g"]   # "s" is also a sub-group name: g.g-style paths
NAMES = ["a", "b", "al", "alpha", "beta", "d", "n", "_p", "x1", "a_b", "cf"]
TYPES = ["int", "str", "bool", ["opt", "int"], ["opt", "str"], ["list", "int"], ["opt", ["list", "int"]], ["list", "str"]]


# ---- values --------------------------------------------------------------------------------------
def dflt_for(rng, t):
    if t == "int":
        return rng.choice([0, 1, -3, 42])
    if t == "str":
        return rng.choice(["x", "hello", "5"])
    if t == "bool":
        return rng.choice([True, False])
    if t[0] == "list":
        return rng.choice([[], [dflt_for(rng, t[1])], [dflt_for(rng, t[1]), dflt_for(rng, t[1])]])
    if t[0] == "opt":
        return None if rng.random() < 0.4 else dflt_for(rng, t[1])


def gen_fields(rng):
    n = rng.choice([1, 1, 2, 2, 3, 3, 4, 5])
    names = rng.sample(NAMES, n)
    fs = []
    for nm in names:
        t = rng.choice(TYPES)
        r = rng.random()
        if r < 0.25:
            d = {"nd": 1}
        elif r < 0.33:
            d = {"v": None}
        else:
            d = {"v": dflt_for(rng, t)}
        fs.append([nm, t, d])
    return fs


def is_opt(t):
    return isinstance(t, list) and t[0] == "opt"


def explicit(fs):
    for nm, t, d in fs:
        if "nd" in d:
            if is_opt(t):
                return False
        else:
            if nm.startswith("_"):
                return False
            if d["v"] is None and not is_opt(t):
                return False
    return True


def py_norm(fs):
    """the documented signature rules as a normal form of the field list (harness mirror of
    Model.C07Decl.norm / onorm; the judge re-computes it in Coq and rejects the case if the two differ).
    A field is [name, type, default] or [name, type, default, {"o": overriding default}]"""
    out = []
    for f in fs:
        nm, t, d = f[0], f[1], f[2]
        if "v" in d and nm.startswith("_"):   # private AND has a default in the signature: not offered
            continue
        if "nd" in d and is_opt(t):
            d = {"v": None}
        if "v" in d and d["v"] is None and not is_opt(t):
            t = ["opt", t]
        out.append([nm, t, d] + list(f[3:]))
    return out


def is_sub(m):
    return isinstance(m, dict)


def py_mnorm(ms):
    out = []
    for m in ms:
        if is_sub(m):
            out.append(dict(m, fields=py_norm(m["fields"])))
        else:
            out += py_norm([m])
    return out


def leaves(ms):
    """[path below the group key, type, signature default] of every declared leaf"""
    out = []
    for m in ms:
        if is_sub(m):
            out += [[m["sub"] + "." + f[0], f[1], f[2]] for f in m["fields"]]
        else:
            out.append([m[0], m[1], m[2]])
    return out


def nest(d):
    """{"s.lr": 1, "a": 2} -> {"s": {"lr": 1}, "a": 2}"""
    out = {}
    for k, v in d.items():
        if "." in k:
            a, b = k.split(".", 1)
            if not isinstance(out.get(a), dict):
                out[a] = {}
            out[a][b] = v
        else:
            out[k] = v
    return out


def case_members(case):
    """older replay files carry a flat field list"""
    if "members" in case:
        return case["members"], case["nmembers"], bool(case.get("cls_full"))
    return case["fields"], case.get("nfields", py_norm(case["fields"])), False


def make_explicit(fs):
    out = []
    for nm, t, d in fs:
        nm = nm.lstrip("_") or "q"
        if "nd" in d and is_opt(t):
            d = {"v": None}
        if "v" in d and d["v"] is None and not is_opt(t):
            t = ["opt", t]
        out.append([nm, t, d])
    return out


def text_for(rng, t, valid=True, append=False):
    """a command-line / environment text for a value of type t"""
    if not valid:
        return rng.choice(["x", "true", "[1]", "null", "{\"a\": 1}", "3", "[a, b]", "1 2"])
    if t == "int":
        return rng.choice(["7", "-2", "0", "12"])
    if t == "str":
        return rng.choice(["abc", "7", "null", "true", "q r", "[1, 2]"])
    if t == "bool":
        return rng.choice(["true", "false"])
    if t[0] == "opt":
        return "null" if rng.random() < 0.35 else text_for(rng, t[1], True, append)
    if t[0] == "list":
        if append and rng.random() < 0.6:
            return text_for(rng, t[1])
        k = rng.randint(0, 3)
        return "[" + ", ".join(json.dumps(obj_for(rng, t[1])) for _ in range(k)) + "]"


def obj_for(rng, t, valid=True):
    """a config / object value for type t"""
    if not valid:
        return rng.choice(["x", True, [1], {"z": 1}, 3, "3", None])
    if t == "int":
        return rng.choice([7, -2, 0, "12"])
    if t == "str":
        return rng.choice(["abc", "q", "7"])
    if t == "bool":
        return rng.choice([True, False, "true"])
    if t[0] == "opt":
        return None if rng.random() < 0.35 else obj_for(rng, t[1])
    if t[0] == "list":
        return [obj_for(rng, t[1]) for _ in range(rng.randint(0, 3))]


def gdest(gk):
    return gk.replace("-", "_")


def group_dict(rng, fs, complete, p_invalid=0.12, p_unknown=0.08):
    d = {}
    for nm, t, dv in fs:
        need = "nd" in dv and complete
        if need or rng.random() < 0.4:
            d[nm] = obj_for(rng, t, rng.random() >= p_invalid)
    if rng.random() < p_unknown:
        d[rng.choice(["zz", "a_x", "nope"])] = rng.choice([1, "s", None])
    items = list(d.items())
    rng.shuffle(items)
    return dict(items)


def gen_config(rng, gk, fs, complete):
    """a config/object dict"""
    g = gdest(gk)
    r = rng.random()
    subs = sorted({nm.split(".")[0] for nm, _, _ in fs if "." in nm})
    if subs and r < 0.06:   # the sub-group key itself: empty mapping / non-mapping / config string
        sub = rng.choice(subs)
        d = {g: {sub: {}}}
    elif r < 0.62:
        d = {g: nest(group_dict(rng, fs, complete))}
    elif r < 0.72:   # dotted keys
        d = {}
        for k, v in group_dict(rng, fs, complete).items():
            d[g + "." + k] = v
    elif subs and r < 0.86:
        # a nested declaration never gets a non-mapping for the group / sub-group key in a config: a leaf that later
        # becomes a branch again is not representable in the flattened namespace of the model (see ASSUMPTIONS)
        d = {g: nest(group_dict(rng, fs, complete))}
    elif r < 0.78:
        d = {g: rng.choice([5, [1], True, 0, False, []])}   # truthy and falsy non-mappings
    elif r < 0.86:   # class 3: string / null for the group key
        d = {g: rng.choice([json.dumps(nest(group_dict(rng, fs, complete))), None, "abc", "5"])}
    elif r < 0.90:
        d = {}
    elif r < 0.95:
        d = {g: nest(group_dict(rng, fs, complete)), rng.choice(["zz", "top"]): 1}
    else:
        # the group key spelled with its hyphen is an unknown key; never with an EMPTY mapping (see ASSUMPTIONS)
        d = {gk: dict(nest(group_dict(rng, fs, complete)), zz=1)} if gk != g else {g: {}}
    return d


def gen_env(rng, gk, fs, complete):
    env = {}
    r = rng.random()
    g = gdest(gk)
    if r < 0.55:
        return env
    for _ in range(rng.choice([1, 1, 2])):
        q = rng.random()
        if q < 0.6:
            nm, t, _ = rng.choice(fs)
            env[("APP_" + g + "__" + nm.replace(".", "__")).upper()] = text_for(rng, t, rng.random() < 0.85)
        elif q < 0.8:
            env["APP_CFG"] = json.dumps(gen_config(rng, gk, fs, complete))
        else:
            key, nm = g, rng.choice(fs)[0]
            if "." in nm and rng.random() < 0.4:   # the sub-group's own variable
                key = g + "__" + nm.split(".")[0]
            env[("APP_" + key).upper()] = rng.choice([json.dumps(nest(group_dict(rng, fs, complete, 0.05, 0.03))), "5", "{}"])
    return env


def abbreviate(rng, opt):
    cut = rng.randint(3, max(3, len(opt) - 1))
    return opt[:cut]


def gen_args(rng, gk, fs, complete):
    items = []
    for nm, t, dv in fs:
        if "nd" in dv and complete:
            items.append(["--%s.%s" % (gk, nm), text_for(rng, t)])
    for _ in range(rng.choice([0, 1, 1, 2, 2, 3, 4])):
        q = rng.random()
        nm, t, _ = rng.choice(fs)
        opt = "--%s.%s" % (gk, nm)
        if q < 0.42:
            items.append([opt, text_for(rng, t, rng.random() < 0.88)])
        elif q < 0.54:
            items.append([abbreviate(rng, opt), text_for(rng, t)])
        elif q < 0.68:
            items.append([opt + "+", text_for(rng, t, rng.random() < 0.9, append=True)])
        elif q < 0.80:   # class 1
            key = gk + "." + nm.split(".")[0] if "." in nm and rng.random() < 0.4 else gk   # the sub-group's loader
            items.append(["--" + key, rng.choice([json.dumps(nest(group_dict(rng, fs, complete, 0.05, 0.03))), "{}", "5"])])
        elif q < 0.92:
            items.append(["--cfg", json.dumps(gen_config(rng, gk, fs, complete))])
        elif q < 0.96:
            items.append(["--" + gk + ".zz", "1"])
        else:
            items.append([rng.choice(["--cf", "--" + gk + ".", "--" + gdest(gk)[:1]]), rng.choice(["{}", "1"])])
    if len(items) > 1 and rng.random() < 0.5:
        rng.shuffle(items)
    return items


def gen_input(rng, gk, fs):
    complete = rng.random() < 0.8
    env = gen_env(rng, gk, fs, complete)
    r = rng.random()
    if r < 0.55:
        return {"env": env, "kind": "args", "args": gen_args(rng, gk, fs, complete)}
    if r < 0.8:
        return {"env": env, "kind": "obj", "obj": gen_config(rng, gk, fs, complete)}
    cfg = gen_config(rng, gk, fs, complete)
    text = json.dumps(cfg) if rng.random() < 0.5 else yaml_text(cfg)
    if rng.random() < 0.04:
        text = rng.choice(["5", "null", "abc", "[1]"])
    return {"env": env, "kind": "str", "text": text}


def yaml_text(d):
    import yaml
    return yaml.safe_dump(d, default_flow_style=False, sort_keys=False)


def F(*fields):
    return list(fields)


NESTED = [["a", "int", {"v": 1}, {"o": 5}],
          {"sub": "s", "fields": [["lr", "int", {"v": 2}, {"o": 7}], ["m", "str", {"v": "x"}]], "mdef": True},
          ["b", "int", {"v": 3}, {"o": 9}]]

FIXED = [
    # the recorded findings, so that every run sees them
    ("g", [["a", "int", {"v": 1}], ["b", "str", {"v": "x"}]],
     [{"env": {}, "kind": "args", "args": [["--g", "{\"a\": 2}"]]},
      {"env": {"APP_G": "{\"a\": 7}"}, "kind": "args", "args": []},
      {"env": {}, "kind": "obj", "obj": {"g": "{\"a\": 2}"}},
      {"env": {}, "kind": "obj", "obj": {"g": None}},
      {"env": {}, "kind": "obj", "obj": {"g": 5}},
      {"env": {}, "kind": "obj", "obj": {"g": 0}},
      {"env": {}, "kind": "str", "text": "g: false\n"},
      {"env": {}, "kind": "args", "args": [["--cfg", "{\"g\": []}"]]},
      {"env": {}, "kind": "args", "args": [["--g.a", "4"], ["--g.b", "z"]]}]),
    ("g", [["a", "int", {"v": 1}]], [{"env": {}, "kind": "args", "args": [["--g", "5"]]}]),
    ("g", [["b", ["opt", "int"], {"nd": 1}], ["c", "str", {"v": None}], ["_p", "int", {"v": 1}]],
     [{"env": {}, "kind": "args", "args": []}, {"env": {}, "kind": "args", "args": [["--g.b", "1"], ["--g.c", "null"]]}]),
    # a private Optional parameter without default is kept by the signature rules (fix 2f69862)
    ("g", [["_p", ["opt", "int"], {"nd": 1}], ["a", "int", {"v": 1}]],
     [{"env": {}, "kind": "args", "args": []}, {"env": {}, "kind": "args", "args": [["--g._p", "3"]]}]),
    ("my-g", [["f", "int", {"nd": 1}], ["a", "int", {"v": 1}]],
     [{"env": {}, "kind": "args", "args": [["--my-g.f", "2"]]}, {"env": {}, "kind": "obj", "obj": {"my_g": {"f": 2}}}]),
    # hyphenated key x whole-group values (argv, environment, string in a config) whose leaves need conversion
    ("my-g", [["a", "int", {"v": 1}], ["l", ["list", "int"], {"v": [1]}], ["o", ["opt", "int"], {"v": None}]],
     [{"env": {}, "kind": "args", "args": [["--my-g", "{\"a\": \"2\", \"l\": [\"12\", 7], \"o\": \"3\"}"]]},
      {"env": {}, "kind": "args", "args": [["--my-g", "{\"l\": [\"12\"]}"], ["--my-g.l+", "4"]]},
      {"env": {"APP_MY_G": "{\"a\": \"2\", \"l\": [\"12\", 7]}"}, "kind": "args", "args": [["--my-g.o", "5"]]},
      {"env": {}, "kind": "obj", "obj": {"my_g": "{\"a\": \"2\", \"l\": [\"12\", 7]}"}},
      {"env": {}, "kind": "obj", "obj": {"my_g": {"a": "2", "l": ["12", 7], "o": "3"}}}]),
    # declaration-time default overrides, a nested sub-group in the middle
    ("g", NESTED,
     [{"env": {}, "kind": "args", "args": []},
      {"env": {}, "kind": "args", "args": [["--g.s.lr", "4"], ["--g.b", "1"]]},
      {"env": {"APP_G__S__LR": "8"}, "kind": "obj", "obj": {"g": {"s": {"m": "y"}, "a": 0}}},
      {"env": {}, "kind": "args", "args": [["--g.s", "{\"lr\": 1}"]]}]),
    ("g", [["a", "int", {"v": 1}, {"o": 5}], ["b", "str", {"v": "x"}]],
     [{"env": {}, "kind": "args", "args": []}, {"env": {}, "kind": "args", "args": [["--g.b", "z"]]}]),
    # hyphenated key and a default override: set_defaults is called with the raw key
    ("my-g", [["a", "int", {"v": 1}, {"o": 5}], ["b", "str", {"v": "x"}]],
     [{"env": {}, "kind": "args", "args": []}]),
]

SUBNAMES = ["s", "opt", "sub", "a_s"]

FIXED_VARIANTS = [
    None,
    {"dcls_kind": "final", "cls_default": "ns", "skip": {"mode": "names", "extra": [[1, ["zk", "int", {"v": 4}]]]}},
    {"dcls_kind": "pydantic", "cls_default": "dict", "skip": {"mode": "count", "extra": [[0, ["sk1", "str", {"nd": 1}]]]}},
    {"dcls_kind": "attrs", "cls_default": "lazy", "skip": None},
    {"dcls_kind": "dataclass", "cls_default": "ns", "skip": {"mode": "names", "extra": [[0, ["bz", ["list", "int"], {"nd": 1}]], [2, ["a_z", "int", {"v": 0}]]]}},
]


def gen_members(rng, gk):
    """the declared members of the group: leaves, sometimes one dataclass-typed member (a nested sub-group),
    sometimes declaration-time default overrides (then every parameter has a signature default)"""
    fs = gen_fields(rng)
    if rng.random() < 0.7:
        fs = make_explicit(fs)
    if gk == "my-g" and rng.random() < 0.6:
        fs = [[nm, t, ({"v": dflt_for(rng, t)} if "nd" in d else d)] for nm, t, d in fs]
    ms = [list(f) for f in fs]
    r = rng.random()
    nested = r < 0.22
    over = rng.random() < (0.5 if nested else 0.2)
    if nested:
        sub_fields = make_explicit(gen_fields(rng))[: rng.choice([1, 2, 2, 3])]
        mdef = rng.random() < 0.5
        if mdef:
            sub_fields = [[nm, t, ({"v": dflt_for(rng, t)} if "nd" in d else d)] for nm, t, d in sub_fields]
        pos = rng.randint(0, len(ms))
        if over and len(ms) > 0 and rng.random() < 0.6:
            pos = rng.randint(0, len(ms) - 1)       # something comes after the nested member
        name = rng.choice([n for n in SUBNAMES if n not in [f[0] for f in fs]])
        ms.insert(pos, {"sub": name, "fields": sub_fields, "mdef": mdef})
    if over:
        def defaulted(f):
            nm, t, d = f[0], f[1], f[2]
            if "nd" in d:
                d = {"v": dflt_for(rng, t)}
            return [nm, t, d]

        def maybe_over(f):
            if rng.random() < 0.6 and not (f[0].startswith("_")):
                v = dflt_for(rng, f[1])
                if v is None and not is_opt(f[1]) and f[2]["v"] is not None:
                    return f
                return f + [{"o": v}]
            return f

        ms = [dict(m, fields=[maybe_over(defaulted(f)) for f in m["fields"]]) if is_sub(m) else maybe_over(defaulted(m))
              for m in ms]
    return ms


HISTORIES = [None, None, None, "parse_env", "parse_args_env", "parse_args", "help", "defaults", "dump", "refused_attach",
             "refused_attach", "refused_self"]

SKIP_NAMES = ["zk", "sk1", "_sk", "a_z", "bz"]


def has_private(ms):
    return any(f[0].startswith("_") for m in ms for f in (m["fields"] if is_sub(m) else [m]))


def gen_variant(rng, ms):
    """how the signature styles' TYPE is made (the model compilers do not take it: that it is irrelevant is what is
    tied): the kind of dataclass-like type, dict / Namespace default=, extra parameters that the declaration skips"""
    r = rng.random()
    if r < 0.45:
        kind = "dataclass"
    elif r < 0.65 or has_private(ms) or any(is_sub(m) for m in ms):
        kind = rng.choice(["final", "dataclass"])     # attrs / pydantic rename or hide '_' names; nested members stay dataclasses
    else:
        kind = rng.choice(["attrs", "pydantic"])
    skip = None
    if rng.random() < 0.3:
        mode = rng.choice(["names", "count"])
        names = rng.sample(SKIP_NAMES, rng.choice([1, 1, 2]))
        if kind in ("attrs", "pydantic"):
            names = [n for n in names if not n.startswith("_")] or ["zk"]
        extra = []
        for nm in names:
            t = rng.choice(TYPES)
            d = {"nd": 1} if rng.random() < 0.4 else {"v": dflt_for(rng, t)}
            extra.append([rng.randint(0, len(ms)), [nm, t, d]])
        skip = {"mode": mode, "extra": extra}
    return {"dcls_kind": kind, "cls_default": rng.choice(["dict", "ns", "lazy"]), "skip": skip}


def mk_case(t, gk, ms, inp=None, full=False, history=None, variant=None):
    c = {"t": t, "gk": gk, "members": ms, "nmembers": py_mnorm(ms), "cls_full": full, "inner_history": history,
         "variant": variant}
    if inp is not None:
        c["input"] = inp
    return c


def generate(rng, tier):
    cases = []
    for k, (gk, ms, inputs) in enumerate(FIXED):
        full = k % 2 == 1
        history = HISTORIES[(2 * k + 3) % len(HISTORIES)]
        variant = FIXED_VARIANTS[k % len(FIXED_VARIANTS)]
        if variant and variant["dcls_kind"] in ("attrs", "pydantic") and (has_private(ms) or any(is_sub(m) for m in ms)):
            variant = dict(variant, dcls_kind="final")
        cases.append(mk_case("table", gk, ms, None, full, history, variant))
        for inp in inputs:
            cases.append(mk_case("run", gk, ms, inp, full, history, variant))
    n_lists = 230 if tier == "quick" else 2600
    for _ in range(n_lists):
        gk = rng.choice(GKEYS)
        ms = gen_members(rng, gk)
        names = [m["sub"] if is_sub(m) else m[0] for m in ms]
        if len(set(names)) != len(names) or not leaves(py_mnorm(ms)):
            continue
        if any(is_sub(m) and (not py_norm(m["fields"]) or len({f[0] for f in m["fields"]}) != len(m["fields"])) for m in ms):
            continue
        full = rng.random() < 0.5
        history = rng.choice(HISTORIES)   # construction history of the inner-parser style's component parser
        variant = gen_variant(rng, ms)    # how the signature styles' type is made
        cases.append(mk_case("table", gk, ms, None, full, history, variant))
        lv = leaves(ms)
        for _ in range(10):
            cases.append(mk_case("run", gk, ms, gen_input(rng, gk, lv), full, history, variant))
    return cases


# ---- observation ---------------------------------------------------------------------------------
def observe(cases):
    groups = {}
    for i, c in enumerate(cases):
        groups.setdefault(json.dumps([c["gk"], case_members(c), c.get("inner_history"), c.get("variant")]), []).append(i)
    payload_cases, index = [], []
    for key, idxs in groups.items():
        c0 = cases[idxs[0]]
        runs = [i for i in idxs if cases[i]["t"] == "run"]
        ms, nms, full = case_members(c0)
        payload_cases.append({"gk": c0["gk"], "members": ms, "nmembers": nms, "cls_full": full,
                              "inner_history": c0.get("inner_history"), "variant": c0.get("variant"),
                              "inputs": [cases[i]["input"] for i in runs]})
        index.append((idxs, runs))
    # many small payloads (<= 40 declarations each, fw.JOBS runner processes at a time): under heavy machine load no
    # single runner process comes near its time limit (one process per JOBS-th of the thorough tier did: 900 s)
    size = 40
    chunks = [payload_cases[k:k + size] for k in range(0, len(payload_cases), size)] or [[]]
    res = fw.run_impl_parallel("c07_styles.py", [{"cases": ch} for ch in chunks], timeout=2400)
    merged = [r for part in res for r in part]
    out = [None] * len(cases)
    for (idxs, runs), r in zip(index, merged):
        for i in idxs:
            if cases[i]["t"] == "table":
                out[i] = {"tables": r["tables"]}
        for i, rr in zip(runs, r["runs"]):
            out[i] = rr
    return out


# ---- Gallina ---------------------------------------------------------------------------------------
def g_ty(t):
    if t == "int":
        return "TInt"
    if t == "str":
        return "TStr"
    if t == "bool":
        return "TBool"
    if t[0] == "list":
        return "(TList %s)" % g_ty(t[1])
    if t[0] == "opt":
        return "(TOpt %s)" % g_ty(t[1])
    return "(TOpt (TOpt (TOpt TStr)))"   # a type outside the grammar: never equal to a model row


def g_val(v):
    if v is None:
        return "VNone"
    if isinstance(v, bool):
        return "(VBool %s)" % g_bool(v)
    if isinstance(v, int):
        return "(VInt %s)" % g_Z(v)
    if isinstance(v, str):
        return "(VStr %s)" % g_str(v)
    if isinstance(v, list):
        return "(VList %s)" % g_list([g_val(x) for x in v], "val")
    if isinstance(v, dict):
        return "(VDict %s)" % g_list([g_pair(g_str(k), g_val(x)) for k, x in v.items()], "(str * val)")
    raise fw.TieBroken("value outside the grammar: %r" % (v,))


def g_field(f):
    nm, t, d = f[0], f[1], f[2]
    return "{| f_name := %s; f_ty := %s; f_default := %s |}" % (
        g_str(nm), g_ty(t), "NoDefault" if "nd" in d else "(Dflt %s)" % g_val(d["v"]))


def g_ofield(f):
    over = g_opt(g_val(f[3]["o"])) if len(f) > 3 and f[3] is not None else "None"
    return "{| o_field := %s; o_over := %s |}" % (g_field(f), over)


def g_member(m):
    if is_sub(m):
        return "(MSub %s %s %s)" % (g_str(m["sub"]), g_list([g_ofield(f) for f in m["fields"]], "ofield"),
                                   g_bool(bool(m.get("mdef"))))
    return "(MLeaf %s)" % g_ofield(m)


def g_table_opt(tb):
    return "None" if "error" in tb else "(Some %s)" % g_table(tb)


def g_table(tb):
    if "error" in tb:   # the style could not even be built: an impossible table
        return "{| t_rows := [{| r_dest := (@nil N); r_opts := []; r_ty := None; r_default := ASuppress; r_kind := KLeaf |}]; t_required := [] |}"
    rows = []
    for r in tb["rows"]:
        kind = {"leaf": "KLeaf", "load": "KGroupLoad"}.get(r["kind"])
        ty = g_opt(g_ty(r["ty"]) if r["ty"] is not None else None)
        if kind is None or r["nargs"] is not None:   # unexpected action class / nargs: make the row unmatchable
            kind, ty = "KLeaf", "None"
        dflt = "ASuppress" if "suppress" in r["default"] else "(AVal %s)" % g_val(r["default"]["v"])
        rows.append("{| r_dest := %s; r_opts := %s; r_ty := %s; r_default := %s; r_kind := %s |}" % (
            g_str(r["dest"]), g_list([g_str(o) for o in r["opts"]], "str"), ty, dflt, kind))
    return "{| t_rows := %s; t_required := %s |}" % (g_list(rows, "row"), g_list([g_str(x) for x in tb["required"]], "str"))


def g_ns(items):
    out = []
    for k, x in items:
        if "ns" in x:
            tv = "(TNs %s)" % g_list([g_pair(g_str(f), g_val(v)) for f, v in x["ns"]], "(str * val)")
        else:
            tv = "(TLeaf %s)" % g_val(x["leaf"])
        out.append(g_pair(g_str(k), tv))
    return g_list(out, "(str * tv)")


def g_four(f, d):
    return "{| q_dotted := %s; q_dcls := %s; q_cls := %s; q_inner := %s |}" % tuple(f(d[s]) for s in STYLES)


def g_run(r):
    o = r["out"]
    if isinstance(o, dict):
        out = "(OOk %s)" % g_ns(o["ok"])
    elif o == "reject":
        out = "OReject"
    elif o == "exit":
        out = "OExit"
    else:
        out = "OOther"
    d = r["dump"]
    if d is None or "err" in d:
        dump = "None"
        if d is not None:
            out = "OOther"   # accepted but not dumpable: explained by neither model nor spec
    else:
        dump = "(Some (%s, %s))" % (g_ns(d["items"]), g_str(d["text"]))
    return "{| sr_out := %s; sr_dump := %s |}" % (out, dump)


def g_input(inp):
    env = g_list([g_pair(g_str(k), g_str(v)) for k, v in inp["env"].items()], "(str * str)")
    if inp["kind"] == "args":
        e = "(EArgs %s)" % g_list([g_pair(g_str(o), g_str(v)) for o, v in inp["args"]], "(str * str)")
    elif inp["kind"] == "obj":
        e = "(EObject %s)" % g_list([g_pair(g_str(k), g_val(v)) for k, v in inp["obj"].items()], "(str * val)")
    else:
        e = "(EString %s)" % g_str(inp["text"])
    return "{| i_env := %s; i_entry := %s |}" % (env, e)


def g_tab(t):
    return g_list([g_pair(g_str(s), g_val(v)) for s, v in t], "(str * val)")


def safe_val(v):
    """floats etc. come back from the runner as {"__other__": ..}: keep them as an (unconvertible) dict"""
    return v


def term(case, obs):
    ms, nms, full = case_members(case)
    gms = g_list([g_member(m) for m in ms], "member")
    gnms = g_list([g_member(m) for m in nms], "member")
    if case["t"] == "table":
        return "CTable %s %s %s %s %s" % (g_str(case["gk"]), gms, gnms, g_bool(full), g_four(g_table_opt, obs["tables"]))
    return "CRun %s %s %s %s %s %s %s %s" % (g_str(case["gk"]), gms, gnms, g_bool(full), g_input(case["input"]),
                                             g_tab(obs["pv"]), g_tab(obs["jl"]), g_four(g_run, obs["styles"]))


# ---- evidence helpers ------------------------------------------------------------------------------
def nontrivial_key(case, obs):
    if case["t"] == "table":
        return None if len(leaves(case_members(case)[0])) < 2 else json.dumps([case, obs], sort_keys=True)
    inp = case["input"]
    empty = not inp["env"] and not inp.get("args") and not inp.get("obj") and not inp.get("text")
    return None if empty else json.dumps([case, obs["styles"]], sort_keys=True)


def _outcome(r):
    o = r["out"]
    return "ok" if isinstance(o, dict) else o.split(":")[0]


def shape(ms):
    bits = []
    if any(is_sub(m) for m in ms):
        bits.append("nested")
    if any(len(f) > 3 for m in ms for f in (m["fields"] if is_sub(m) else [m])):
        bits.append("overrides")
    return "+".join(bits) or "flat"


def category(case, obs):
    ms = case_members(case)[0]
    if case["t"] == "table":
        return "table/%d leaves/%s" % (len(leaves(ms)), shape(ms))
    outs = [_outcome(obs["styles"][s]) for s in STYLES]
    same = all(json.dumps(obs["styles"][s], sort_keys=True) == json.dumps(obs["styles"]["dotted"], sort_keys=True) for s in STYLES)
    return "run/%s/%s/%s%s" % (shape(ms), case["input"]["kind"], outs[1], "" if same else "/styles-differ")


def describe(case, obs):
    ms, nms, full = case_members(case)
    d = {"group_key": case["gk"],
         "members: [name,type,default,{o: overriding default}] | {sub: nested dataclass member}": ms,
         "members_as_declared_in_the_dotted_and_inner_parser_styles": nms,
         "class_style_default_dict_is_complete": full,
         "inner_parser_used_on_its_own_before_attaching": case.get("inner_history"),
         "signature_styles_type_variant (kind of dataclass-like type, dict/Namespace default=, skipped extra parameters)":
             case.get("variant")}
    if case["t"] == "table":
        d["tables_of_the_four_real_parsers"] = obs["tables"]
    else:
        d["input"] = case["input"]
        d["answers"] = {s: {"out": obs["styles"][s]["out"], "dump": (obs["styles"][s]["dump"] or {}).get("text")} for s in STYLES}
    return d


def addresses_group(case):
    """harness-side approximation of finding classes 1-3 (the input names the group key itself)"""
    if case["t"] != "run":
        return False
    gk, inp = case["gk"], case["input"]
    g = gdest(gk)
    subs = [m["sub"] for m in case_members(case)[0] if is_sub(m)]
    if any(("APP_" + k).upper() in inp["env"] for k in [g] + [g + "__" + n for n in subs]):
        return True

    def in_cfg(d):
        if not isinstance(d, dict):
            return False
        d = nest(d)
        if any(k == g and not isinstance(v, dict) for k, v in d.items()):
            return True
        gv = d.get(g)
        return isinstance(gv, dict) and any(k in subs and not isinstance(v, dict) for k, v in gv.items())

    def in_text(t):
        import yaml
        try:
            return in_cfg(yaml.safe_load(t))
        except Exception:
            return False

    if any(in_text(t) for k, t in inp["env"].items() if k == "APP_CFG"):
        return True
    if inp["kind"] == "args":
        return any(any(("--" + k).startswith(o) for k in [gk] + [gk + "." + n for n in subs]) or in_text(v)
                   for o, v in inp["args"])
    if inp["kind"] == "obj":
        return in_cfg(inp["obj"])
    return in_text(inp["text"])


def shrink(case):
    # Inside a finding class a failing case is "neither the faithful model nor the spec" (class 99); the framework's
    # shrink criterion is "the spec fails", which every listed finding satisfies too — shrinking would walk from the
    # real failure to a listed one.  Such cases are reported unshrunk.
    if addresses_group(case):
        return

    ms, _, full = case_members(case)
    if case.get("inner_history"):
        yield dict(case, inner_history=None)
    v = case.get("variant")
    if v:
        yield dict(case, variant=None)
        if v.get("skip"):
            yield dict(case, variant=dict(v, skip=None))
        if v.get("dcls_kind") not in (None, "dataclass"):
            yield dict(case, variant=dict(v, dcls_kind="dataclass"))

    def with_members(ms2):
        c = {k: v for k, v in case.items() if k not in ("fields", "nfields")}
        return dict(c, members=ms2, nmembers=py_mnorm(ms2), cls_full=full)

    if len(ms) > 1:
        for i in range(len(ms)):
            c = with_members(ms[:i] + ms[i + 1:])
            if leaves(c["nmembers"]):
                yield c
    for i, m in enumerate(ms):
        if is_sub(m) and len(m["fields"]) > 1:
            for j in range(len(m["fields"])):
                c = with_members(ms[:i] + [dict(m, fields=m["fields"][:j] + m["fields"][j + 1:])] + ms[i + 1:])
                if py_norm(c["members"][i]["fields"]):
                    yield c
    if case["t"] == "run":
        inp = case["input"]
        for k in list(inp["env"]):
            e = dict(inp["env"])
            del e[k]
            yield dict(case, input=dict(inp, env=e))
        if inp["kind"] == "args":
            a = inp["args"]
            for i in range(len(a)):
                yield dict(case, input=dict(inp, args=a[:i] + a[i + 1:]))
        if inp["kind"] == "obj":
            o = inp["obj"]
            for k in list(o):
                if isinstance(o[k], dict):
                    for kk in list(o[k]):
                        sub = dict(o[k])
                        del sub[kk]
                        yield dict(case, input=dict(inp, obj=dict(o, **{k: sub})))


def search(rng, tier, broken):
    """a broken proof / tie: look for an input on which the four styles really differ (ONE more quick-sized sample
    from a fresh seed, ~30-60 s; the default search would observe the whole thorough tier)"""
    known = fw.load_known_findings(PROP)
    for _ in range(1):
        cases = generate(rng, "quick")
        obs = observe(cases)
        bm, bi, bo = fw.judge_cases(sys.modules[__name__], cases, obs, tag="x")
        bad = sorted(set(bi) | {i for i, k in bo if FINDING_CLASSES.get(k) not in known})
        if bad:
            i = bad[0]
            return {"case": cases[i], "observed": obs[i], "explain": describe(cases[i], obs[i])}
    return None


META = {
    "level_text": (
        "Theorems C07_four_styles_agree_m / C07_four_styles_agree (coq/Properties/C07.v): for EVERY group key, EVERY flat "
        "member list (any length; with or without declaration-time default overrides, complete or partial default= "
        "mapping; "
        "types int/str/bool/Optional/List, default or none), ANY pair of external loaders and EVERY input mix "
        "(environment variables + parse_args items incl. abbreviations, '+' appends and --cfg strings | parse_object "
        "| parse_string) that does not address the group key itself, the Gallina models of the four declaration "
        "styles (dotted add_argument calls, dataclass-typed argument, add_class_arguments under a key, ActionParser "
        "under a key) give the same accept/reject/exit decision, the same nested values and the same dumped content. "
        "It rests on table theorems proved for all field lists: C07_grouped_tables_equal (the three grouped styles "
        "compile to ONE identical action table, so C07_grouped_styles_agree_on_all_inputs holds for all inputs, "
        "whole-group values included), C07_class_group_table (that table is the dotted table of the normal form "
        "plus the group's _ActionConfigLoad row), C07_equiv_tables_same_parse (any leaf table and the same table "
        "with the load row answer every guarded input identically: a simulation through defaults, environment, "
        "argv, config merge, validation and dump with an invariant), and C07_signature_rules_normal_form / "
        "C07_norm_idempotent (for lists without private names the signature styles see a field list only through the "
        "documented rules' normal form). "
        "C07_set_defaults_in_order / C07_grouped_tables_equal_m: the sequential find-by-dest-and-set of "
        "parser.set_defaults over the default= mapping gives every parameter exactly its overriding default (no override "
        "lost, none on another parameter), so the signature styles' table equals the inner-parser table built with the "
        "defaults inline. Declarations with a dataclass-typed member (nested sub-group) are modelled by all four "
        "compilers and by the parser model (leaves under dotted paths). Round 6: their TABLES are proved for every member "
        "list — leaves and dataclass-typed members in any number and order — without declaration-time defaults "
        "(C07_grouped_tables_equal_nested: add_class_arguments recursing through _add_signature_parameter / "
        "_create_group_if_requested, the dataclass-typed argument and ActionParser-inside-ActionParser, i.e. "
        "_move_parser_actions applied twice, build ONE identical table, for the tree as it is and the repaired one; "
        "C07_grouped_styles_agree_nested: hence the three grouped styles answer EVERY input identically, whole-group and "
        "whole-sub-group values included; C07_dotted_leaves_of_grouped_table: for every normalised member list, "
        "overrides and default instances included, the dotted style owns exactly the leaf actions of that table in the "
        "same order and the same required keys; C07_nested_tables_agree is the statement the judged TABLE cases of such "
        "declarations are inside: guard table_class = v_class). RUN cases of nested declarations — dotted against "
        "grouped — and tables of nested declarations WITH default instances / overrides stay tied only (class 7; "
        "C07_nested_tables_example is one kernel-evaluated instance). "
        "Outside the guard the property fails on the faithful model: ..._refuted theorems (kernel-evaluated "
        "witnesses) for the listed findings (hyphen-key-default-override is new); C07_four_styles_agree_fixed / "
        "the fixkey=true compilers are the statements for the repaired trees. Models are tied to the real code per case inside Coq: the four "
        "real parsers' _actions/required_args against the model compilers (table cases) and the four real parsers' "
        "answers (as_dict / rejection / dump) against the model run (run cases)."),
    "level_note": (
        "Proof, partial. Proved about the model for all inputs; that the model is the code is only exercised by the "
        "correspondence run (seeded field lists x ~10 inputs each). The add_argument styles are declared from the "
        "normal form of the field list under the documented signature rules (Optional without default -> None, "
        "default None -> Optional[T], '_'-prefixed non-required names not offered): a field list the rules rewrite is "
        "treated as a different declaration, not as a defect. Type conversion is modelled only for "
        "int/str/bool/Optional/List and the YAML/JSON loaders enter as observed finite tables (theorems hold for any "
        "loaders). Dump TEXT equality, exception classes and help output are compared on observations only; "
        "instantiate_classes, group titles, positional/ActionYesNo/subclass-typed fields, untyped parameters "
        "(fail_untyped=False), link targets, conditional (origin) parameters, generic dataclasses, a default instance "
        "of a dataclass-typed member that differs from the member type's own defaults, config FILE paths and empty mappings for undeclared keys (group NAMES are not in the table model: "
        "parse_object({'my-g': {}}) differs between styles, see notes/C07.md) are outside the statement. Trusted: "
        "Coq kernel/VM, the runner "
        "tie/impl/c07_styles.py and the Gallina printer, the hand-written models. No axioms."),
    "technique": ("Rocq proof: compilers-to-table equalities by induction on the field / member list (nested: both "
                  "compilers rewritten as table_of of (action, required) pair lists, the signature styles' list being "
                  "the inner parser's list prefixed member by member) + a simulation proof "
                  "(invariant carried through every parser stage) lifting table equivalence to all inputs; "
                  "kernel-evaluated counter-witnesses; per-case correspondence of tables and runs judged inside Coq"),
}

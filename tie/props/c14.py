"""C14 — class_path checked against the declared type and built from its config.
Generated class families (real modules in a scratch dir) x specs, real parse_args/parse_object + instantiate_classes
vs Model/C14ClassSpec.v vs Spec/C14Spec.v (judged inside Coq)."""
import json
import os

from tie.framework import g_Z, g_bool, g_list, g_nat, g_opt, g_pair, g_str, run_impl_parallel

PROP = "C14"
IMPORTS = "From JV Require Import Lib.Base Model.C14ClassSpec Model.C14Containers Spec.C14Spec Corr.C14Judge."
RULE = ("seeded random class families (4-8 classes: roots, single/multiple inheritance, 12 % of the non-root classes "
        "private i.e. underscore-named (not offered by bare name, their subclasses are), "
        "abstract classes, **kwargs classes, int/str/Class/Optional[Class] parameters added or overridden in "
        "subclasses, functions returning a class, a non-class constant; 35 % of the class-typed parameters default to a class "
        "spec lazy_instance(Sub, ..) naming a concrete, mostly proper, subclass; 35 % of the families are laid out as a package "
        "whose last 1-3 classes live in submodules s1/s2 and whose __init__ re-exports some of them under their own name, "
        "under the name of ANOTHER submodule class, or under a new name; 30 % of the one-module families come with a second "
        "module <mod>_alt defining a homonym (same name, parents, constructor) of 1-2 non-root classes, which makes their bare "
        "name ambiguous below every declared type above them) x specs for a random declared type: explicit "
        "{class_path, init_args, dict_kwargs} (valid / wrong class / abstract / non-class / missing import / unknown or "
        "ill-typed init_args), short forms (name only, init_args without class_path, bare dict, dotted "
        "--x.k / --x.init_args.k / nested --x.p.k / --x.dict_kwargs.k; init_args-only / bare dicts / dotted keys for a "
        "nested parameter that rely on the class of its default; class paths in canonical, long (pkg.sub.Name) or re-exported "
        "form) each run together with its explicit twin, "
        "class changes between argv items (top level and nested, a quarter of them with dict_kwargs on both sides), "
        "argument defaults (15 % of them invalid: an ill-typed or unknown init_arg, found while the defaults are completed), "
        "8 % of the specs repeat a declared parameter in dict_kwargs (well- or ill-typed), parse_object channel; 12 % of the "
        "plain argv cases put the option into the parser of a sub-command (argv = fit + items, instantiate_classes recurses "
        "into the sub-command), 1 case in 13 uses a class group add_class_arguments(Base, 'x') instead of an option typed Base "
        "(dotted items only; the group is instantiated after its class-typed members), 30 % of the option defaults are given "
        "as a STRING (class name or class path); one case per "
        "family is a fault history in one process (a parser with an invalid option default fails first, then a fresh parser "
        "sees a class change); plus 230 hand-made cases in every run (dotted null two levels down, invalid string defaults "
        "(open finding string-default-unchecked), diamonds, "
        "functions with related/unrelated return type, same-named parameter of another type across a class change, "
        "dict_kwargs naming a parameter, abstract declared type, two-level nested construction, prefix-named options / "
        "parameters with merged config sources, a family that grows between two parses, Dict[str, C] / List[C] options in "
        "several sources, a homonym in a second module (ambiguous / unambiguous positions), sub-command / class-group / "
        "string-default variants); per family 2 of the 12 cases are one option typed Dict[str, C] or List[C] given in 2-3 sources "
        "(the option twice, a config source, --m.key=, --m+=, --m.param= for the last element; later sources use short forms "
        "for non-first elements, drop / add / reorder keys, change the list length), 2 are "
        "parsers with 2-3 class-typed options whose names may be string prefixes of each other (x/x_ema, x/x2, xa/x/xab) fed by "
        "2-3 merged config sources (--cfg A --cfg B, entries: full specs with class changes, init_args without class_path, "
        "bare dicts) mixed with plain argv items, and 2 are histories in one process: the module first holds a prefix of the "
        "class list, a parse naming a class by its bare name runs, the remaining classes are then defined in the same module "
        "(plugin load) and the case proper runs against the grown family; "
        "non-trivial = accepted with >=1 explicit init_arg or >=2 steps, or rejected for a reason other than a missing "
        "import; distinct = distinct (family, declared type, default, steps, observation)")
TRUSTED = [
    "Coq 8.16.1 kernel + vm_compute",
    "tie/impl/c14_classes.py (module writer, constructor log by object id, canonicalisation) and the Gallina printer",
    "hand-written model coq/Model/C14ClassSpec.v (adapt / inst, in the shape of adapt_typehints' subclass branch, "
    "adapt_class_type, subclass_spec_as_namespace, resolve_class_path_by_name, discard_init_args_on_class_path_change, "
    "instantiate_classes), tied by per-case agreement evaluated inside Coq",
    "CPython class creation/import/call binding for the generated modules; inspect.signature",
]
ASSUMPTIONS = [
    "one generated module or package per family, plus optionally the module of homonyms (a module may be defined in two stages; a package is loaded whole, all its "
    "submodules imported by __init__; no path through a name that a submodule merely imported); class names unique; constructors take keyword-only explicit parameters, do not "
    "call super().__init__ and log (id, type name, kwargs); functions forward their keywords to the returned class",
    "string values are identifiers that YAML loads as str (no numeric-looking strings); null only for Optional[Class]",
    "class names are unique within the family's own module / package; a homonym only exists in the second module <mod>_alt "
    "(fam_shadows: same name, parents and constructor as the original), it is never named by a class path - it only makes "
    "the bare name ambiguous ('Multiple subclasses with name', modelled by Model.ambiguous, exercised and covered by "
    "C14_bare_name_accepted_only_if_unique); shadows are generated for one-module families only; private MODULES "
    "(a '._' path component that is not a class name) are not generated",
    "a sub-command wrapper does not change the parse of the option (same model as the plain option); a class group "
    "add_class_arguments(Base, 'x') fed by dotted items is modelled as the option typed Base with the implicit class_path "
    "of Base (the group's Namespace is read as the spec of class Base); a default given as the string s is modelled as "
    "the default spec {class_path: s}; all three tied per case, not proved",
    "null is only given where the parameter is Optional[Class]: a None for an int/str/Class parameter is stored unchecked in "
    "every channel (same root cause as the open finding C05 none-unchecked: _check_value_key returns None unchecked under "
    "lenient_check and validation skips None) - noted in notes/C14.md, owned by C05",
    "a class with a parameter defaulting to a class spec has no **kw (with **kw the parameter resolver falls back to "
    "collecting the parents' parameters: C13's business), such defaults have int/str init_args only, and functions always "
    "forward such a parameter",
    "parameter types int / str / Class / Optional[Class]; Dict[str, Class] / List[Class] only as the type of the option itself "
    "(not of constructor parameters); Union-of-class, protocols, Callable[..., Class] and custom instantiators are not "
    "generated",
    "an option typed Dict[str, C] / List[C] is modelled per element (coq/Model/C14Containers.v): every source replaces the "
    "value, an element sees the previous element with the same key / (same length) position, elements of an untouched "
    "source are re-adapted against themselves; tied per case, not proved; no explicit twin is run for these options",
    "dict_kwargs are, as documented (DOCUMENTATION.rst 'Unresolved parameters': 'arguments that will not be validated "
    "during parsing, but will be used for class instantiation'), outside the validity claim: a TypeError of the "
    "prescribed call Class(**init_args, **dict_kwargs) caused by a dict_kwargs key the callable cannot take is not "
    "counted against the property; any other TypeError on an accepted spec is",
    "a parser with several class-typed options is modelled as the product of single-option models (an option only sees the "
    "argv items / config-source entries that address it; one rejection rejects the parse, one TypeError aborts "
    "instantiate_classes); a config source entry --cfg={opt: v} is modelled like the argv item --opt=v; both are tied "
    "per case, not proved; name clashes across modules (ambiguous bare names) are not generated",
    "in an input with more than one item no dict_kwargs key is a parameter name of a class of the family: after a class "
    "change such a key can sit in the dict_kwargs of a class that has a parameter of that name, and jsonargparse re-validates "
    "this intermediate state of nested init_args when the next item arrives whereas the model validates at the end only "
    "(found by the thorough tier: 1 of 16.8k cases; single-item inputs keep such keys)",
    "model fuel: adapt/inst run with FUEL = 40 levels of nesting (generated depth <= 5); the theorems are stated for "
    "every fuel and exclude OutOfFuel by hypothesis (depth v < n) or by concluding from an Ok result",
]
EXHAUSTIVE = {"quick": False, "thorough": False}
FINDING_CLASSES = {1: "nested-null-restringified", 2: "string-default-unchecked"}   # 1: fixed in /repo 389f511; 2: open
# "judge": model of the code as it is (finding class 1 open). After fixes/C14-nested-null-restringified.patch has been
# applied to /repo set this to "judge_fixed" (model with the NestedArg value handed down unchanged, no finding class).
JUDGE = os.environ.get("C14_JUDGE", "judge_fixed")  # repair landed: /repo 389f511
META = {
    "level_text": "Proved in Coq for ALL well-formed class families (one module or a package with submodules and re-exports, "
                  "fam_wf), declared types, defaults and argv sequences of the model "
                  "(coq/Properties/C14.v): C14_accepted_is_subclass_and_valid — every value parse accepts names a class that "
                  "is a subclass of the declared type (or a function returning one) and its init_args are valid for that very "
                  "callable (every key a parameter, every value of the parameter's type recursively, required parameters "
                  "present); C14_instantiate_exact — whenever instantiation succeeds the constructor log has one call per spec "
                  "node, children are built first and the returned object is exactly the one the configuration denotes (named "
                  "class, init_args updated by dict_kwargs, nested objects passed); C14_accepted_builds_configured_object — an "
                  "accepted spec without abstract classes whose dict_kwargs go to **kwargs callables instantiates without "
                  "TypeError and yields that object; C14_short_forms_same_run — class name only, init_args without class_path, "
                  "bare dict and one-level dotted items can be replaced by their explicit form without changing the run; "
                  "C14_bare_name_accepted_only_if_unique / C14_ambiguous_name_rejected — for ALL families, also with a homonym "
                  "class in a second module, a bare class name (alone or as class_path of a dict) is accepted only if exactly "
                  "one non-abstract public subclass of the declared type carries it and no homonym exists, otherwise the parse "
                  "fails (nothing is picked silently); C14_accepted_is_subclass_and_valid_spec_defaults / "
                  "C14_accepted_builds_configured_object_spec_defaults — the first and third theorem also for families whose "
                  "class-typed parameters default to a class spec (lazy_instance), under fam_wf2. "
                  "C14_dotted_null_refuted exhibits the first finding (fixed in /repo 389f511: dotted sub-option with "
                  "null two levels down was rejected while the explicit form was accepted); C14_string_default_refuted exhibits "
                  "the open finding string-default-unchecked (an option default given as a string that does not name a subclass "
                  "of the declared type is returned unchecked by parse_args([]) - finding class 2, listed open). The Gallina model is tied to the real "
                  "parse_args/parse_object + instantiate_classes on generated class families written to real modules (2000 "
                  "cases quick, 17k thorough); model agreement, spec agreement and the explicit-form twin are judged inside Coq.",
    "level_note": "Partial: C14_accepted_is_subclass_and_valid and C14_accepted_builds_configured_object assume fam_wf (no "
                  "parameter default is a class spec); their _spec_defaults versions assume fam_wf2 = the generated families "
                  "(fam_wf_ext) + every spec default has no dict_kwargs and int/str init_args for int/str parameters of its class "
                  "(true for every generated family) + no parameter name is str-typed in one callable and class-typed in another "
                  "(names_typed: NOT true for every generated family; where it fails the families are judged per case only: in "
                  "the model a string kept across a class change into a class-typed parameter is not re-adapted by the defaults "
                  "pass, the real code re-adapts it - an unmodelled re-validation, see notes/C14.md); "
                  "C14_instantiate_exact, the short-form and the bare-name theorems hold for all families. "
                  "short-form = explicit-form (S3) is a theorem only for the shallow forms and w.r.t. the class current in the model "
                  "state; dotted keys two or more levels deep, short forms inside nested values (also those relying on the "
                  "class of a parameter's default) and Spec.expand_steps itself are checked per case by running each case and "
                  "its explicit twin (computed by Spec.expand_steps, re-computed in Coq) through the implementation; that every "
                  "object is handed on once (no aliasing) and that a fully explicit valid spec is accepted (S4) are likewise "
                  "only checked per case (S4 is demanded for every sequence of fully explicit valid specs, also across class "
                  "changes and for every option of a multi-option parser), as are the independence of several class-typed options "
                  "under merged config sources, bare-name resolution in a family that grows between parses, the sub-command "
                  "wrapper, the class-group reading and string defaults. dict_kwargs are treated as documented (not validated): a TypeError caused only by a "
                  "dict_kwargs key the callable cannot take is allowed by the spec. Trusted: Coq kernel/VM; faithfulness of the "
                  "hand-written model outside the generated cases (the clone/update choreography between adapt_class_type, "
                  "ActionTypeHint.__call__ and merge_config is collapsed to its net effect); the harness; the model of "
                  "import_object / get_import_path for one module or package (import_obj, path_of); the per-element model of Dict[str, C] / List[C] options and "
                  "the product model of several options are correspondence-only; Union-of-class, protocols, "
                  "Callable[..., Class] and custom instantiators are outside the modelled space. No axioms.",
    "technique": "Rocq proof by induction on the model's recursion fuel over a structural validity predicate (two-pass "
                 "finalize: defaults pass then validation pass; for spec defaults with the invariant that every previous value of "
                 "the defaults pass is itself well-typed for the parameter's class and free of dict_kwargs) and by a log-extension "
                 "invariant for instantiate; case analysis of the name-resolution table for bare names; "
                 "vm_compute witnesses; randomized correspondence on generated class families judged in Coq",
}

PNAMES = ["a", "b", "c", "d", "e", "n", "m", "ab"]  # "a" is a string prefix of "ab"
STRS = ["abc", "xy", "foo", "bar", "q"]
CNAMES = ["Base", "Alpha", "Beta", "Gamma", "Delta", "Eps", "Zeta", "Eta", "Theta"]


# ------------------------------------------------------------------------------------------------
# families
# ------------------------------------------------------------------------------------------------
def is_sub(fam, c, base):
    if c == base:
        return True
    k = next((k for k in fam["classes"] if k["name"] == c), None)
    return k is not None and any(is_sub(fam, p, base) for p in k["parents"])


def mro_ok(fam_classes):
    made = {}
    try:
        for k in fam_classes:
            made[k["name"]] = type(k["name"], tuple(made[p] for p in k["parents"]) or (object,), {})
    except TypeError:
        return False
    return True


def gen_default(rng, ty):
    if ty[0] == "int":
        return {"i": rng.randint(-3, 9)} if rng.random() < 0.7 else None
    if ty[0] == "str":
        return {"s": rng.choice(STRS)} if rng.random() < 0.7 else None
    if ty[0] == "cls":
        return None
    return {"null": 1}


def path_of(fam, nm):
    """mirror of Model.path_of (get_import_path): the canonical path of the object named nm"""
    sub = dict(fam.get("subs") or []).get(nm)
    if sub is None or dict(fam.get("exports") or []).get(nm) == nm:
        return fam["mod"] + "." + nm
    return "%s.%s.%s" % (fam["mod"], sub, nm)


def import_name(fam, cp):
    """mirror of Model.import_obj: the name of the family object a path imports to, or None"""
    pre = fam["mod"] + "."
    if not cp.startswith(pre):
        return None
    rest = cp[len(pre):]
    names = {k["name"] for k in fam["classes"]} | {f["name"] for f in fam["funcs"]} | set(fam["consts"])
    where = dict(fam.get("subs") or [])
    exports = dict(fam.get("exports") or [])
    if "." not in rest:
        if rest in names and rest not in where:
            return rest
        return exports.get(rest)
    sub, nm = rest.split(".", 1)
    return nm if "." not in nm and where.get(nm) == sub and nm in names else None


def all_paths(fam, nm):
    """every path under which the object named nm can be imported"""
    out = [path_of(fam, nm)]
    sub = dict(fam.get("subs") or []).get(nm)
    if sub is not None:
        out.append("%s.%s.%s" % (fam["mod"], sub, nm))
    out += [fam["mod"] + "." + a for a, t in fam.get("exports") or [] if t == nm]
    return sorted(set(out), key=out.index)


def gen_spec_default(rng, classes, ty):
    """a default that is itself a class spec (lazy_instance(Sub, ..)): a concrete subclass of the annotation, defined
    earlier, all of whose required parameters are int/str; init_args: the required ones and some others"""
    tmp = {"classes": classes}
    cands = [k for k in classes if is_sub(tmp, k["name"], ty[1]) and not k["abstract"]
             and all(p["def"] is not None or p["ty"][0] in ("int", "str") for p in k["params"])]
    if not cands:
        return None
    proper = [k for k in cands if k["name"] != ty[1]]
    k = rng.choice(proper if proper and rng.random() < 0.8 else cands)
    ia = []
    for p in k["params"]:
        if p["ty"][0] in ("int", "str") and (p["def"] is None or rng.random() < 0.5):
            ia.append([p["name"], gen_leaf(rng, p["ty"], True)])
    return {"spec": {"cp": k["name"], "ia": ia, "dk": []}}   # cp: the class NAME, made a path by fix_default_paths


def fix_default_paths(fam):
    for ps in [k["params"] for k in fam["classes"]] + [f["params"] for f in fam["funcs"]]:
        for p in ps:
            if p["def"] is not None and "spec" in p["def"] and "." not in p["def"]["spec"]["cp"]:
                p["def"] = {"spec": dict(p["def"]["spec"], cp=path_of(fam, p["def"]["spec"]["cp"]))}


def gen_layout(rng, fam):
    """lay the family out as a package: the last 1-3 classes (and the functions returning them) live in submodules s1 / s2;
    __init__ re-exports some of them under their own name, under the name of ANOTHER submodule object, or under a new name"""
    n = len(fam["classes"])
    k = rng.randint(1, min(3, n - 1))
    tail = [c["name"] for c in fam["classes"][n - k:]]
    cut = rng.randint(1, len(tail))
    where = {nm: ("s1" if i < cut else "s2") for i, nm in enumerate(tail)}
    subs = [[nm, where[nm]] for nm in tail]
    for f in fam["funcs"]:
        if f["ret"] in where:
            subs.append([f["name"], where[f["ret"]]])
    exports = []
    for nm in tail:
        if rng.random() < 0.4:
            exports.append([nm, nm])
    free = [nm for nm in tail if nm not in [a for a, _ in exports]]
    if free and len(tail) > 1 and rng.random() < 0.6:
        a = rng.choice(free)
        exports.append([a, rng.choice([t for t in tail if t != a])])      # a homonym: pkg.a is another object
    if rng.random() < 0.3:
        exports.append(["Alias0", rng.choice(tail)])
    fam["subs"], fam["exports"] = subs, exports


def gen_param(rng, name, earlier, inherited, classes=()):
    p = _gen_param(rng, name, earlier, inherited)
    if p["ty"][0] in ("cls", "opt") and rng.random() < 0.35:
        d = gen_spec_default(rng, list(classes), p["ty"])
        if d is not None:
            p["def"] = d
    return p


def _gen_param(rng, name, earlier, inherited):
    if name in inherited and rng.random() < 0.75:
        ty = inherited[name]
    else:
        r = rng.random()
        if r < 0.5 or not earlier:
            ty = ["int"]
        elif r < 0.72:
            ty = ["str"]
        elif r < 0.86:
            ty = ["cls", rng.choice(earlier)]
        else:
            ty = ["opt", rng.choice(earlier)]
    return {"name": name, "ty": ty, "def": gen_default(rng, ty)}


def gen_family(rng, idx):
    while True:
        n = rng.randint(4, 8)
        classes = []
        types_seen = {}
        for i in range(n):
            name = CNAMES[i]
            if i > 0 and rng.random() < 0.12:
                name = "_" + name      # a private class: not offered by bare name, its subclasses are
            earlier = [k["name"] for k in classes]
            parents = []
            if earlier and rng.random() < 0.8:
                parents = [rng.choice(earlier)]
                if len(earlier) > 1 and rng.random() < 0.2:
                    p2 = rng.choice(earlier)
                    tmp = {"classes": classes}
                    if not is_sub(tmp, p2, parents[0]) and not is_sub(tmp, parents[0], p2):
                        parents.append(p2)
            inherited = {}
            for p in parents:
                for q in next(k for k in classes if k["name"] == p)["params"]:
                    inherited.setdefault(q["name"], q["ty"])
            names = list(inherited)
            rng.shuffle(names)
            names = names[: rng.randint(0, len(names))]
            extra = [x for x in PNAMES if x not in names]
            rng.shuffle(extra)
            names += extra[: rng.randint(0 if names else 1, 2)]
            rng.shuffle(names)
            params = []
            for nm in names[:4]:
                src = inherited if nm in inherited else types_seen
                p = gen_param(rng, nm, earlier, src, classes)
                types_seen.setdefault(nm, p["ty"])
                params.append(p)
            has_spec_default = any(p["def"] is not None and "spec" in p["def"] for p in params)
            # (a **kw constructor with a lazy_instance default makes the parameter resolver fall back to collecting the
            #  parents' parameters - C13's business: such classes get no **kw)
            classes.append({"name": name, "parents": parents, "params": params,
                            "abstract": rng.random() < 0.15, "varkw": rng.random() < 0.25 and not has_spec_default})
        if not mro_ok(classes):
            continue
        concrete = [k for k in classes if not k["abstract"]]
        if len(concrete) < 2:
            continue
        funcs = []
        for j in range(rng.randint(0, 2)):
            k = rng.choice(concrete)
            # (a parameter defaulting to a class spec is always forwarded: left to the class it would be built lazily,
            #  outside the constructor log)
            ps = [dict(p) for p in k["params"] if p["def"] is None or "spec" in p["def"] or rng.random() < 0.6]
            for p in ps:
                if p["def"] is not None and p["ty"][0] == "int" and rng.random() < 0.5:
                    p["def"] = {"i": rng.randint(10, 19)}
            funcs.append({"name": "make%d" % j, "ret": k["name"], "params": ps})
        fam = {"mod": "jvfam%d" % idx, "classes": classes, "funcs": funcs, "consts": ["K0"], "subs": [], "exports": []}
        if rng.random() < 0.35:
            gen_layout(rng, fam)
        elif rng.random() < 0.3:
            # a second module <mod>_alt defines a homonym (same name, parents, constructor) of one or two non-root classes:
            # their bare names are ambiguous below every declared type above them
            cands = [k["name"] for k in classes if k["parents"]]
            rng.shuffle(cands)
            fam["shadows"] = sorted(cands[: rng.randint(1, 2)])
        fix_default_paths(fam)
        return fam


def cls_of(fam, name):
    return next((k for k in fam["classes"] if k["name"] == name), None)


def params_of_path(fam, cp):
    nm = import_name(fam, cp) or cp.split(".")[-1]
    k = cls_of(fam, nm)
    if k:
        return k["params"]
    f = next((f for f in fam["funcs"] if f["name"] == nm), None)
    return f["params"] if f else []


# ------------------------------------------------------------------------------------------------
# explicit config trees  {"cp": path, "ia": [[k, node]], "dk": [[k, leaf]]}  leaves {"i"}/{"s"}/{"null"}
# ------------------------------------------------------------------------------------------------
def a_path(rng, fam, nm):
    """a path of the object named nm: mostly the canonical one, else any other under which it is importable"""
    return path_of(fam, nm) if rng.random() < 0.7 else rng.choice(all_paths(fam, nm))


def pick_class(rng, fam, base, clean):
    mod = fam["mod"]
    if fam.get("exports") and rng.random() < (0.05 if clean else 0.12):
        return mod + "." + rng.choice(fam["exports"])[0]      # whatever __init__ re-exports under that name
    subs = [k for k in fam["classes"] if is_sub(fam, k["name"], base)]
    conc = [k for k in subs if not k["abstract"]]
    r = rng.random()
    if clean or r < 0.74:
        pool = conc or subs
        return a_path(rng, fam, rng.choice(pool)["name"])
    if r < 0.82:
        fs = [f for f in fam["funcs"] if is_sub(fam, f["ret"], base)] or fam["funcs"]
        if fs:
            return a_path(rng, fam, rng.choice(fs)["name"])
    if r < 0.88:
        others = [k for k in fam["classes"] if not is_sub(fam, k["name"], base)]
        if others:
            return a_path(rng, fam, rng.choice(others)["name"])
    if r < 0.92:
        ab = [k for k in subs if k["abstract"]]
        if ab:
            return a_path(rng, fam, rng.choice(ab)["name"])
    if r < 0.95:
        return mod + ".K0"
    if r < 0.98:
        return mod + ".Nope"
    return "nomod.Base"


def gen_leaf(rng, ty, clean):
    if ty[0] == "int":
        if not clean and rng.random() < 0.07:
            return {"s": rng.choice(STRS)}
        return {"i": rng.randint(-5, 30)}
    # no ill-typed value for str: an int has no faithful argv rendering ("5" is accepted as the string '5')
    return {"s": rng.choice(STRS)}


def gen_tree(rng, fam, base, depth=0, clean=False, cp=None):
    cp = cp or pick_class(rng, fam, base, clean)
    ia = []
    for p in params_of_path(fam, cp):
        give = rng.random() < (0.9 if p["def"] is None else 0.4)
        if not give:
            continue
        if p["ty"][0] in ("int", "str"):
            ia.append([p["name"], gen_leaf(rng, p["ty"], clean)])
        elif p["ty"][0] == "opt" and rng.random() < 0.2:
            ia.append([p["name"], {"null": 1}])
        elif p["def"] is not None and "spec" in p["def"] and rng.random() < 0.6:
            # the parameter defaults to a class spec: override init_args only, relying on the default's class_path
            dcp = p["def"]["spec"]["cp"]
            sub = [[q["name"], gen_leaf(rng, q["ty"], clean)] for q in params_of_path(fam, dcp)
                   if q["ty"][0] in ("int", "str") and rng.random() < 0.6]
            if not sub:
                continue
            nm = import_name(fam, dcp)
            ia.append([p["name"], {"cp": dcp, "ia": sub, "dk": [], "bare": nm if nm and cls_of(fam, nm) else None,
                                   "implicit": True}])
        elif depth < 3:
            ia.append([p["name"], gen_tree(rng, fam, p["ty"][1], depth + 1, clean)])
    if not clean and rng.random() < 0.06:
        ia.append([rng.choice(["zz", "a", "n", "q"]), {"i": 1}])
        ia = [kv for i, kv in enumerate(ia) if kv[0] not in [x[0] for x in ia[:i]]]
    dk = []
    if rng.random() < (0.1 if clean else 0.16):
        for _ in range(rng.randint(1, 2)):
            key = rng.choice(["zz", "yy"] + ([rng.choice(PNAMES)] if rng.random() < 0.3 else []))
            if key not in [k for k, _ in dk]:
                dk.append([key, gen_leaf(rng, ["int"] if rng.random() < 0.7 else ["str"], True)])
    if rng.random() < 0.08:
        # a declared parameter given in init_args AND in dict_kwargs of the same spec (the dict_kwargs copy is moved into
        # init_args and validated; it wins): well-typed or ill-typed for the parameter
        plain = [(k, v) for k, v in ia if "i" in v or "s" in v]
        if plain:
            k, v = rng.choice(plain)
            if k not in [x for x, _ in dk]:
                bad = rng.random() < 0.5
                new = ({"s": rng.choice(STRS)} if bad else {"i": rng.randint(-5, 30)}) if "i" in v else (
                    {"i": rng.randint(0, 9)} if bad else {"s": rng.choice(STRS)})
                dk.append([k, new])
    nm = import_name(fam, cp)
    return {"cp": cp, "ia": ia, "dk": dk, "bare": nm if nm is not None and cls_of(fam, nm) else None}


def corrupt_tree(rng, t):
    """a copy of a valid config tree with one fault that is only found when the value is adapted: an int init_arg given
    as a string, else an unknown init_args key (never an import problem: add_argument itself would raise on that)"""
    import copy

    t = copy.deepcopy(t)
    ints = [kv for kv in t["ia"] if "i" in kv[1]]
    if ints and rng.random() < 0.7:
        rng.choice(ints)[1] = {"s": rng.choice(STRS)}
    else:
        t["ia"].append(["zz", {"i": 1}])
    t.pop("implicit", None)
    return t


def short_name(rng, cp, p_short, bare=None):
    """bare: the name of the class the path imports to (None: not a class of the family / unknown)"""
    if bare is None and cp.count(".") == 1:
        bare = cp.split(".")[-1]
    return bare if bare is not None and rng.random() < p_short else cp


def tree_raw(rng, t, p_short=0.0):
    """config tree -> raw value (dict form); class paths abbreviated with probability p_short"""
    if "cp" not in t:
        return t
    if t.get("implicit") and rng.random() < 0.85:      # no class_path: the class of the parameter's default
        kv = [[k, tree_raw(rng, v, p_short)] for k, v in t["ia"]]
        return {"d": [["init_args", {"d": kv}]]} if rng.random() < 0.7 else {"d": kv}
    cp = short_name(rng, t["cp"], p_short, t.get("bare"))
    if not t["ia"] and not t["dk"] and rng.random() < (0.7 if p_short else 0.0):
        return {"s": cp}
    d = [["class_path", {"s": cp}]]
    if t["ia"]:
        d.append(["init_args", {"d": [[k, tree_raw(rng, v, p_short)] for k, v in t["ia"]]}])
    if t["dk"]:
        d.append(["dict_kwargs", {"d": [[k, v] for k, v in t["dk"]]}])
    return {"d": d}


def tree_value(t):
    """config tree -> value json (for argument defaults)"""
    if "cp" not in t:
        return t
    return {"spec": {"cp": t["cp"], "ia": [[k, tree_value(v)] for k, v in t["ia"]], "dk": list(t["dk"])}}


def steps_for(rng, t, prefix, top):
    """a config tree as a sequence of argv items below key path `prefix` (list of components)"""
    steps = []
    cp = short_name(rng, t["cp"], 0.7, t.get("bare"))
    if top:
        steps.append({"raw": {"s": cp}})
    elif t.get("implicit") and rng.random() < 0.85:
        pass                                             # --x.k.p=v without ever naming the class of k
    else:
        steps.append({"nested": prefix, "raw": {"s": cp}})
    items = list(t["ia"])
    pending = []
    for k, v in items:
        r = rng.random()
        ia = ["init_args"] if rng.random() < 0.4 else []
        if "cp" in v and r < 0.6:
            steps += steps_for(rng, v, prefix + ia + [k], False)
        elif r < 0.8 or not top:
            steps.append({"nested": prefix + ia + [k], "raw": tree_raw(rng, v, 0.5)})
        else:
            pending.append([k, tree_raw(rng, v, 0.5)])
    if pending:
        if rng.random() < 0.5:
            steps.append({"raw": {"d": [["init_args", {"d": pending}]]}})
        else:
            steps.append({"raw": {"d": pending}})
    for k, v in t["dk"]:
        if top and rng.random() < 0.5:
            steps.append({"raw": {"d": [["dict_kwargs", {"d": [[k, v]]}]]}})
        else:
            steps.append({"nested": prefix + ["dict_kwargs", k], "raw": v})
    return steps


# ------------------------------------------------------------------------------------------------
# explicit twin (mirror of Spec.C14Spec.expand_steps; Coq re-computes it and compares)
# ------------------------------------------------------------------------------------------------
def resolve_name(fam, base, nm):
    if "." in nm:
        return nm
    hits = [k for k in fam["classes"] if k["name"] == nm and is_sub(fam, nm, base) and not k["abstract"]
            and "._" not in path_of(fam, nm)]
    if nm in (fam.get("shadows") or []) and nm != base:
        return nm       # a second module defines a homonym: the bare name is ambiguous, it denotes no class
    return path_of(fam, nm) if len(hits) == 1 else nm


def strip_ia(path):
    return path[1:] if len(path) >= 2 and path[0] == "init_args" else path


def aget(d, k):
    return next((v for kk, v in d if kk == k), None)


def nest(path, r):
    if not path:
        return r
    if len(path) == 1:
        return {"d": [["init_args", {"d": [[path[0], r]]}]]}
    if path[0] == "dict_kwargs":
        return {"d": [["dict_kwargs", {"d": [[".".join(path[1:]), r]]}]]}
    return {"d": [["init_args", {"d": [[path[0], nest(strip_ia(path[1:]), r)]]}]]}


def expand_dict(fam, base, cur, d):
    keys = [k for k, _ in d]
    cpv = aget(d, "class_path")
    if cpv is not None:
        if "s" in cpv:
            p = resolve_name(fam, base, cpv["s"])
            return {"raw": {"d": [[k, ({"s": p} if k == "class_path" else v)] for k, v in d]}}, p
        return {"raw": {"d": d}}, cur
    if cur is None:
        return {"raw": {"d": d}}, cur
    if "init_args" in keys or "dict_kwargs" in keys:
        return {"raw": {"d": [["class_path", {"s": cur}]] + d}}, cur
    return {"raw": {"d": [["class_path", {"s": cur}], ["init_args", {"d": d}]]}}, cur


def expand_steps(fam, base, dflt, steps):
    cur = None
    if dflt is not None:
        cur = dflt["spec"]["cp"]
    elif not cls_of(fam, base)["abstract"]:
        cur = path_of(fam, base)
    out = []
    for st in steps:
        if "nested" in st:
            path = strip_ia(st["nested"])
            if len(path) == 1:
                e, cur = expand_dict(fam, base, cur, [[path[0], st["raw"]]])
            elif path[0] == "dict_kwargs":
                e, cur = expand_dict(fam, base, cur, [["dict_kwargs", {"d": [[".".join(path[1:]), st["raw"]]]}]])
            else:
                e, cur = expand_dict(fam, base, cur, [["init_args", {"d": [[path[0], nest(strip_ia(path[1:]), st["raw"])]]}]])
        elif "s" in st["raw"]:
            p = resolve_name(fam, base, st["raw"]["s"])
            e, cur = {"raw": {"d": [["class_path", {"s": p}]]}}, p
        elif "d" in st["raw"]:
            e, cur = expand_dict(fam, base, cur, st["raw"]["d"])
        else:
            e = st
        out.append(e)
    return out


# ------------------------------------------------------------------------------------------------
# cases
# ------------------------------------------------------------------------------------------------
def _int_meets_str(fam, steps, dflt):
    """True if some int leaf sits under a key that is a str-typed parameter somewhere in the family. Such inputs are outside
    the modelled space (ASSUMPTIONS): a number given on the command line for a str parameter is kept as the string "-3",
    the same number inside a JSON dict is an int and is rejected - the str/YAML asymmetry of C02, not a C14 matter."""
    str_names = {p["name"] for k in fam["classes"] for p in k["params"] if p["ty"][0] == "str"}
    str_names |= {p["name"] for f in fam["funcs"] for p in f["params"] if p["ty"][0] == "str"}

    # likewise a null under a key that is, somewhere in the family, a parameter not typed Optional[...]: None is stored
    # unchecked for any parameter (root cause of the open finding C05 none-unchecked), outside the modelled space
    allp = [p for k in fam["classes"] for p in k["params"]] + [p for f in fam["funcs"] for p in f["params"]]
    nonopt_names = {p["name"] for p in allp if p["ty"][0] != "opt"}

    def walk(key, r):
        if "null" in r:
            return key in nonopt_names
        if "i" in r:
            return key in str_names
        if "d" in r:
            return any(walk(k, v) for k, v in r["d"])
        if "spec" in r:
            return any(walk(k, v) for k, v in r["spec"]["ia"] + r["spec"]["dk"])
        return False

    for st in steps:
        if "cfg" in st:
            if any(walk(None, v) for _, v in st["cfg"]):
                return True
        elif walk(st["nested"][-1] if "nested" in st else None, st["raw"]):
            return True
    return dflt is not None and walk(None, dflt)


def rebase_family(fam, mod):
    """the same classes in ONE module called `mod` (class paths inside parameter defaults follow)"""
    new = {"mod": mod, "classes": [], "funcs": [], "consts": fam["consts"], "subs": [], "exports": []}

    def ps_(ps):
        out = []
        for p in ps:
            p = dict(p)
            if p["def"] is not None and "spec" in p["def"]:
                nm = import_name(fam, p["def"]["spec"]["cp"])
                p["def"] = {"spec": dict(p["def"]["spec"], cp=mod + "." + nm)}
            out.append(p)
        return out

    new["classes"] = [dict(k, params=ps_(k["params"])) for k in fam["classes"]]
    new["funcs"] = [dict(f, params=ps_(f["params"])) for f in fam["funcs"]]
    return new


def sub_family(fam, n1, mod):
    """the (one-module) family as it was when only its first n1 classes (and the functions returning one of them) existed"""
    cl = fam["classes"][:n1]
    names = {k["name"] for k in cl}
    return {"mod": mod, "classes": cl, "funcs": [f for f in fam["funcs"] if f["ret"] in names], "consts": fam["consts"],
            "subs": [], "exports": []}


def _gen_history_case(rng, fam, tag):
    """A class family that grows while the program runs: the module first holds the first n1 classes, a parse that names a
    class by its bare name runs (warm-up), then the remaining classes are defined in the module (a plugin is loaded), then
    the case proper runs against the whole family - in one process. The module gets a name of its own."""
    n = len(fam["classes"])
    mod = "%sh%s" % (fam["mod"], tag)
    full = rebase_family(fam, mod)
    n1 = rng.randint(1, n - 1)
    first = sub_family(full, n1, mod)
    old = [k["name"] for k in first["classes"]]
    new = [k["name"] for k in full["classes"][n1:]]
    # a declared type that exists from the start and, if possible, gets a subclass later
    growing = [b for b in old if any(is_sub(full, c, b) for c in new)]
    base = rng.choice(growing or old)
    warm = _gen_case(rng, first, base)
    subs = [k["name"] for k in first["classes"] if is_sub(first, k["name"], base) and not k["abstract"]]
    bare = {"raw": {"s": rng.choice(subs or ["Nope"])}}
    wsteps = [bare] if warm["channel"] != "argv" or rng.random() < 0.5 else [bare] + warm["steps"]
    c = None
    for attempt in range(6):
        c = _gen_case(rng, full, base)
        txt = json.dumps(c["steps"])
        if c["channel"] == "argv" and any('"%s"' % nm in txt or '.%s"' % nm in txt for nm in new):
            break
    c["channel"] = "argv"
    c["twin"] = _twin(c)
    c["warm"] = {"fam": first, "base": base, "dflt": None, "steps": wsteps}
    return c


def _gen_fault_case(rng, fam, tag):
    """A fault history in one process: a parser whose class-typed option has an INVALID default is used first (parse_args
    raises ArgumentError while the defaults are completed, the program carries on), then - on a fresh parser - a class is
    named and replaced by another class. The module gets a name of its own so that the history is part of the case."""
    full = rebase_family(fam, "%sf%s" % (fam["mod"], tag))
    names = [k["name"] for k in full["classes"]]
    with_subs = [b for b in names if sum(1 for k in full["classes"] if is_sub(full, k["name"], b) and not k["abstract"]) >= 2]
    base = rng.choice(with_subs or names)
    c = _gen_case(rng, full, base, kind="change")
    c["warm"] = {"fam": full, "base": base, "dflt": tree_value(corrupt_tree(rng, gen_tree(rng, full, base, clean=True))),
                 "steps": []}
    return c


OPT_NAMES = [["x", "x_ema"], ["x", "x2"], ["x_ema", "x"], ["x", "y"], ["x", "x_ema", "y"], ["xa", "x", "xab"]]


def _gen_multi_case(rng, fam):
    """A parser with several class-typed options (names may be string prefixes of each other) fed by config sources that are
    merged one after the other (--cfg A --cfg B: ActionConfigFile + merge_config), optionally mixed with plain argv items."""
    names = [k["name"] for k in fam["classes"]]
    onames = rng.choice(OPT_NAMES)
    b0 = rng.choice(names)
    opts = [{"name": o, "base": b0 if rng.random() < 0.6 else rng.choice(names), "dflt": None} for o in onames]
    cur = {}
    argv = []
    for si in range(rng.randint(2, 3)):
        entry = []
        for o in opts:
            if si > 0 and rng.random() > 0.8:
                continue
            prev = cur.get(o["name"])
            r = rng.random()
            if prev is None or r < 0.65:
                t = gen_tree(rng, fam, o["base"], clean=rng.random() < 0.85)
                cur[o["name"]] = t
                entry.append([o["name"], tree_raw(rng, t, 0.4)])
            else:
                ps = [p for p in params_of_path(fam, prev["cp"]) if p["ty"][0] in ("int", "str")]
                if not ps:
                    entry.append([o["name"], {"d": [["class_path", {"s": prev["cp"]}]]}])
                    continue
                p = rng.choice(ps)
                kv = [[p["name"], gen_leaf(rng, p["ty"], True)]]
                entry.append([o["name"], {"d": [["init_args", {"d": kv}]]} if r < 0.85 else {"d": kv}])
        if entry:
            argv.append({"cfg": entry})
        if rng.random() < 0.3:
            o = rng.choice(opts)
            prev = cur.get(o["name"])
            ps = [p for p in params_of_path(fam, prev["cp"]) if p["ty"][0] in ("int", "str")] if prev else []
            if ps:
                p = rng.choice(ps)
                argv.append({"opt": o["name"], "nested": [p["name"]], "raw": gen_leaf(rng, p["ty"], True)})
    return multi_case(fam, opts, argv)


def _entry_for(rng, fam, base, prev, allow_full=True):
    """one element of a container source: (raw, tree or None). prev = the config tree the element had before (or None)"""
    r = rng.random()
    if prev is None or (allow_full and r < 0.4):
        t = gen_tree(rng, fam, base, clean=rng.random() < 0.85)
        return tree_raw(rng, t, 0.4), t
    ps = [p for p in params_of_path(fam, prev["cp"]) if p["ty"][0] in ("int", "str")]
    if r < 0.5 or not ps:
        sub = [k["name"] for k in fam["classes"] if is_sub(fam, k["name"], base) and not k["abstract"]]
        nm = rng.choice(sub) if sub else base
        t = {"cp": path_of(fam, nm), "ia": [], "dk": []}
        return {"s": nm if rng.random() < 0.6 else t["cp"]}, t
    p = rng.choice(ps)
    kv = [[p["name"], gen_leaf(rng, p["ty"], True)]]
    if r < 0.9:
        return {"d": [["init_args", {"d": kv}]]}, prev      # init_args without class_path
    return {"d": kv}, prev                                    # bare dict


def _gen_cont_case(rng, fam):
    """One option typed Dict[str, Base] or List[Base] given in 2-3 sources (the option twice, a config source, a dotted
    key, --m+=): later sources address elements with short forms that rely on the element's previous class."""
    names = [k["name"] for k in fam["classes"]]
    base = rng.choice(names)
    kind = "dict" if rng.random() < 0.6 else "list"
    srcs = []
    via = lambda: "cfg" if rng.random() < 0.3 else "opt"  # noqa: E731
    if kind == "dict":
        cur = {}
        keys = ["k1", "k2", "k3"][: rng.randint(2, 3)]
        ent = []
        for k in keys:
            raw, cur[k] = _entry_for(rng, fam, base, None)
            ent.append([k, raw])
        srcs.append({"dict": ent, "via": via()})
        for si in range(rng.randint(1, 2)):
            if rng.random() < 0.3:
                k = rng.choice(keys + ["k9"])
                raw, cur[k] = _entry_for(rng, fam, base, cur.get(k))
                srcs.append({"key": k, "raw": raw})
                continue
            ks = [k for k in cur if rng.random() < 0.85] or list(cur)[:1]
            if rng.random() < 0.3:
                rng.shuffle(ks)
            if rng.random() < 0.15 and "k9" not in ks:
                ks.append("k9")
            ent, new = [], {}
            for k in ks:
                raw, new[k] = _entry_for(rng, fam, base, cur.get(k))
                ent.append([k, raw])
            cur = new
            srcs.append({"dict": ent, "via": via()})
    else:
        cur = []
        ent = []
        for _ in range(rng.randint(1, 3)):
            raw, t = _entry_for(rng, fam, base, None)
            ent.append(raw)
            cur.append(t)
        srcs.append({"list": ent, "via": via()})
        for si in range(rng.randint(1, 2)):
            r = rng.random()
            if r < 0.5 or not cur:
                n = len(cur) if cur and rng.random() < 0.8 else rng.randint(1, 3)
                ent, new = [], []
                for i in range(n):
                    raw, t = _entry_for(rng, fam, base, cur[i] if n == len(cur) else (cur[0] if rng.random() < 0.5 else None))
                    ent.append(raw)
                    new.append(t)
                cur = new
                srcs.append({"list": ent, "via": via()})
            elif r < 0.75:
                raw, t = _entry_for(rng, fam, base, None)
                cur.append(t)
                srcs.append({"append": raw})
            else:
                ps = [p for p in params_of_path(fam, cur[-1]["cp"]) if p["ty"][0] in ("int", "str")]
                if not ps:
                    continue
                p = rng.choice(ps)
                srcs.append({"last": (["init_args"] if rng.random() < 0.3 else []) + [p["name"]], "raw": gen_leaf(rng, p["ty"], True)})
    return cont_case(fam, base, kind, srcs)


def cont_case(fam, base, kind, srcs):
    return {"fam": fam, "base": base, "dflt": None, "steps": [], "channel": "cont", "twin": None,
            "cont": {"kind": kind, "srcs": srcs}}


def _cont_raws(srcs):
    for c in srcs:
        if "dict" in c:
            for k, v in c["dict"]:
                yield None, v
        elif "list" in c:
            for v in c["list"]:
                yield None, v
        elif "append" in c:
            yield None, c["append"]
        elif "key" in c:
            yield None, c["raw"]
        else:
            yield c["last"][-1], c["raw"]


def project(argv, name, first):
    """the items of a multi-option argv that address option `name`, as single-option steps"""
    out = []
    for st in argv:
        if "cfg" in st:
            out += [{"raw": v} for k, v in st["cfg"] if k == name]
        elif st.get("opt", first) == name:
            out.append({k: v for k, v in st.items() if k != "opt"})
    return out


def multi_case(fam, opts, argv):
    first = opts[0]["name"]
    return {"fam": fam, "base": opts[0]["base"], "dflt": opts[0]["dflt"], "steps": project(argv, first, first),
            "channel": "multi", "twin": None, "multi": {"opts": opts, "argv": argv}}


def _dk_hazard(fam, steps, dflt):
    """True if the input has more than one item and some dict_kwargs key is a parameter name of a class of the family.
    Outside the modelled space (ASSUMPTIONS): such a key can end up, after a class change, in the dict_kwargs of a class
    that has a parameter of that name; jsonargparse re-validates that intermediate state when the next item arrives,
    the model only validates it at the end."""
    n = sum(1 for _ in steps) + (1 if dflt is not None else 0)
    if n < 2:
        return False
    pnames = {p["name"] for k in fam["classes"] for p in k["params"]} | {p["name"] for f in fam["funcs"] for p in f["params"]}

    def walk(r):
        if "d" in r:
            for k, v in r["d"]:
                if k == "dict_kwargs" and "d" in v and any(kk in pnames for kk, _ in v["d"]):
                    return True
                if walk(v):
                    return True
        if "spec" in r:
            return any(k in pnames for k, _ in r["spec"]["dk"]) or any(walk(v) for _, v in r["spec"]["ia"])
        return False

    for st in steps:
        if "cfg" in st:
            if any(walk(v) for _, v in st["cfg"]):
                return True
            continue
        path = st.get("nested") or []
        if "dict_kwargs" in path[:-1] and path[-1] in pnames:
            return True
        if walk(st["raw"]):
            return True
    return dflt is not None and walk(dflt)


def gen_cases_for_family(rng, fam, ncases):
    cases = []
    for j in range(ncases):
        special = None
        if j >= ncases - 6:
            special = ("multi", "history", "cont", "multi", "fault", "cont")[j - (ncases - 6)]
        for attempt in range(8):
            if special == "multi":
                c = _gen_multi_case(rng, fam)
                bad = _int_meets_str(fam, c["multi"]["argv"], None) or _dk_hazard(fam, c["multi"]["argv"], None) or any(
                    not project(c["multi"]["argv"], o["name"], c["multi"]["opts"][0]["name"]) for o in c["multi"]["opts"])
                if not bad:
                    break
                continue
            if special == "cont":
                c = _gen_cont_case(rng, fam)
                flat = [{"nested": [k], "raw": v} if k else {"raw": v} for k, v in _cont_raws(c["cont"]["srcs"])]
                if not _int_meets_str(fam, flat, None) and not _dk_hazard(fam, flat, None):
                    break
                continue
            if special in ("history", "fault"):
                c = _gen_history_case(rng, fam, j) if special == "history" else _gen_fault_case(rng, fam, j)
                if not _int_meets_str(fam, c["steps"] + c["warm"]["steps"], c["dflt"]) and not _dk_hazard(fam, c["steps"], c["dflt"]):
                    break
                continue
            c = _gen_case(rng, fam)
            if not _int_meets_str(fam, c["steps"], c["dflt"]) and not _dk_hazard(fam, c["steps"], c["dflt"]):
                break
        else:
            c = {"fam": fam, "base": c["base"], "dflt": None, "steps": [{"raw": {"s": c["base"]}}], "channel": "argv", "twin": None}
            c["twin"] = _twin(c)
        cases.append(c)
    return cases


def _gen_case(rng, fam, base=None, kind=None):
    names = [k["name"] for k in fam["classes"]]
    if True:
        base = base or rng.choice(names)
        kind = kind or rng.choice(["explicit", "explicit", "short", "short", "steps", "steps", "steps", "change", "change",
                                   "change", "object", "default", "group"])
        dflt = None
        dflt_str = None
        channel = "argv"
        if kind == "group":
            # a class group add_class_arguments(Base, "x") instead of an option typed Base: needs a concrete class without **kw
            k0 = cls_of(fam, base)
            elig = [k["name"] for k in fam["classes"] if not k["abstract"] and not k["varkw"] and k["params"]]
            if k0["abstract"] or k0["varkw"] or not k0["params"]:
                with_cls = [n for n in elig if any(p["ty"][0] in ("cls", "opt") for p in cls_of(fam, n)["params"])]
                if not elig:
                    kind = "steps"
                else:
                    base = rng.choice(with_cls or elig)
        if kind == "explicit":
            steps = [{"raw": tree_raw(rng, gen_tree(rng, fam, base))}]
        elif kind == "short":
            steps = [{"raw": tree_raw(rng, gen_tree(rng, fam, base), 0.8)}]
        elif kind == "object":
            steps = [{"raw": tree_raw(rng, gen_tree(rng, fam, base), 0.5)}]
            channel = "object"
        elif kind == "group":
            t = gen_tree(rng, fam, base, clean=rng.random() < 0.8, cp=path_of(fam, base))
            t["dk"] = []
            steps = group_steps(steps_for(rng, t, [], True)[1:], [p["name"] for p in cls_of(fam, base)["params"]])
            channel = "group"
            if not steps:      # nothing given: an option would hold None, a group holds its defaults - not comparable
                steps, channel = [{"raw": {"s": base}}], "argv"
        elif kind == "steps":
            steps = steps_for(rng, gen_tree(rng, fam, base, clean=rng.random() < 0.7), [], True)
            if rng.random() < 0.3:
                steps = steps[1:]  # rely on the implicit class_path of the declared type
        elif kind == "change":
            t1 = gen_tree(rng, fam, base, clean=True)
            t2 = gen_tree(rng, fam, base, clean=rng.random() < 0.8)
            if rng.random() < 0.25:  # dict_kwargs before and after the change
                for t, key in ((t1, "zz"), (t2, "yy")):
                    if not t["dk"]:
                        t["dk"].append([key, {"i": rng.randint(0, 30)}])
            steps = steps_for(rng, t1, [], True) if rng.random() < 0.6 else [{"raw": tree_raw(rng, t1, 0.5)}]
            r = rng.random()
            if r < 0.4:
                steps.append({"raw": {"s": short_name(rng, t2["cp"], 0.6, t2.get("bare"))}})
            elif r < 0.7:
                steps.append({"raw": tree_raw(rng, t2, 0.5)})
            else:
                steps += steps_for(rng, t2, [], True)
            # nested class change: re-point one class-typed argument
            nested = [(k, v) for k, v in t1["ia"] if "cp" in v]
            if nested and rng.random() < 0.6:
                k, v = rng.choice(nested)
                p = next((p for p in params_of_path(fam, t1["cp"]) if p["name"] == k), None)
                if p is not None:
                    t3 = gen_tree(rng, fam, p["ty"][1], 1, clean=True)
                    pos = rng.randint(1, len(steps))
                    steps[pos:pos] = steps_for(rng, t3, [k], False) if rng.random() < 0.5 else [
                        {"nested": [k], "raw": tree_raw(rng, t3, 0.5)}]
        else:  # default
            dt = gen_tree(rng, fam, base, clean=True)
            if rng.random() < 0.15:
                dt = corrupt_tree(rng, dt)      # an invalid default: the parse fails while the defaults are completed
            dflt = tree_value(dt)
            if rng.random() < 0.3:
                # the default given as a STRING (class name or class path): add_argument(default="Sub")
                nm = dt.get("bare")
                s_ = nm if nm and rng.random() < 0.6 and resolve_name(fam, base, nm) != nm else dt["cp"]
                dflt = {"spec": {"cp": s_, "ia": [], "dk": []}}
                dflt_str = s_
            t2 = gen_tree(rng, fam, base, clean=rng.random() < 0.7)
            r = rng.random()
            if r < 0.3:
                steps = []
            elif r < 0.6:
                steps = steps_for(rng, t2, [], True)[1:]
            else:
                steps = steps_for(rng, t2, [], True)
        if not steps and dflt is None:
            steps = [{"raw": {"s": base}}] if channel != "group" else []
        if channel == "argv" and kind != "default" and rng.random() < 0.12:
            channel = "sub"        # the option belongs to the parser of a sub-command
        twin = None
        if channel in ("argv", "sub"):
            tw = expand_steps(fam, base, dflt, steps)
            if tw != steps:
                twin = tw
        c = {"fam": fam, "base": base, "dflt": dflt, "steps": steps, "channel": channel, "twin": twin}
        if dflt_str is not None:
            c["dflt_str"] = dflt_str
        return c


def group_steps(steps, pnames=()):
    """argv items for a class group: dotted items only, no init_args level directly below the group; an unknown first-level
    key that is a proper prefix of a parameter name is left out (--x.a is argparse's abbreviation of --x.ab for a group's
    own options: allow_abbrev, not a C14 input)"""
    abbrev = lambda k: k not in pnames and any(n.startswith(k) for n in pnames)  # noqa: E731
    return [st for st in _group_steps(steps) if not abbrev(st["nested"][0])]


def _group_steps(steps):
    out = []
    for st in steps:
        if "nested" in st:
            path = st["nested"][1:] if st["nested"][0] == "init_args" and len(st["nested"]) > 1 else st["nested"]
            if path[0] not in ("init_args", "dict_kwargs"):
                out.append({"nested": path, "raw": st["raw"]})
        elif "d" in st["raw"]:
            d = st["raw"]["d"]
            if len(d) == 1 and d[0][0] == "init_args" and "d" in d[0][1]:
                d = d[0][1]["d"]
            out += [{"nested": [k], "raw": v} for k, v in d if k not in ("class_path", "init_args", "dict_kwargs")]
    return out


def _P(name, ty, d=None):
    return {"name": name, "ty": ty, "def": d}


def _K(name, parents, params, abstract=False, varkw=False):
    return {"name": name, "parents": parents, "params": params, "abstract": abstract, "varkw": varkw}


def fixed_cases():
    """hand-made cases that are part of every run: the known finding and the interactions the random generator reaches rarely"""
    out = []

    def add(fam, base, steps, dflt=None, channel="argv"):
        c = {"fam": fam, "base": base, "dflt": dflt, "steps": steps, "channel": channel, "twin": None}
        c["twin"] = _twin(c)
        out.append(c)

    I, S, N = (lambda i: {"i": i}), (lambda s: {"s": s}), {"null": 1}
    D = lambda *kv: {"d": [list(x) for x in kv]}  # noqa: E731
    # dotted null two levels down (known finding nested-null-restringified) and its neighbours
    f = {"mod": "jvfix0", "funcs": [], "consts": ["K0"], "classes": [
        _K("Leaf", [], [_P("n", ["int"], I(1))]),
        _K("Mid", [], [_P("leaf", ["opt", "Leaf"], N), _P("d", ["int"], I(0))]),
        _K("Top", [], [_P("mid", ["opt", "Mid"], N)])]}
    add(f, "Top", [{"nested": ["mid"], "raw": S("Mid")}, {"nested": ["mid", "leaf"], "raw": N}])
    add(f, "Top", [{"nested": ["mid"], "raw": S("Mid")}, {"nested": ["mid", "leaf"], "raw": S("Leaf")},
                   {"nested": ["mid", "leaf", "n"], "raw": I(4)}])
    add(f, "Top", [{"nested": ["mid"], "raw": S("Mid")}, {"nested": ["mid"], "raw": N}])
    add(f, "Top", [{"nested": ["init_args", "mid"], "raw": D(("class_path", S("Mid")), ("init_args", D(("leaf", N))))}])
    # a function whose return type is unrelated to the declared type / related to it
    f = {"mod": "jvfix1", "consts": ["K0"], "classes": [
        _K("Base", [], [_P("a", ["int"], I(1))]), _K("Sub", ["Base"], [_P("a", ["int"], I(2)), _P("b", ["str"], S("q"))]),
        _K("Other", [], [_P("a", ["int"], I(3))])],
        "funcs": [{"name": "make0", "ret": "Other", "params": [_P("a", ["int"], I(13))]},
                  {"name": "make1", "ret": "Sub", "params": [_P("a", ["int"], I(12))]}]}
    for fn in ("make0", "make1"):
        add(f, "Base", [{"raw": D(("class_path", S("jvfix1." + fn)), ("init_args", D(("a", I(5)))))}])
        add(f, "Base", [{"raw": S("jvfix1." + fn)}, {"nested": ["a"], "raw": I(6)}])
    add(f, "Base", [{"raw": S("Other")}])
    add(f, "Base", [{"raw": S("jvfix1.K0")}])
    # class change: same-named parameter of another type is discarded, same type survives; dict_kwargs on both sides
    f = {"mod": "jvfix2", "funcs": [], "consts": ["K0"], "classes": [
        _K("Base", [], [], abstract=True),
        _K("A", ["Base"], [_P("a", ["int"], I(1)), _P("c", ["int"], I(2))], varkw=True),
        _K("B", ["Base"], [_P("a", ["str"], S("q")), _P("c", ["int"], I(3))], varkw=True),
        _K("C", ["Base"], [_P("c", ["int"])])]}
    add(f, "Base", [{"raw": S("A")}, {"nested": ["a"], "raw": I(5)}, {"nested": ["c"], "raw": I(7)}, {"raw": S("B")}])
    add(f, "Base", [{"raw": D(("class_path", S("A")), ("init_args", D(("a", I(5)), ("c", I(7)))))},
                    {"raw": D(("class_path", S("jvfix2.B")))}])
    add(f, "Base", [{"raw": D(("class_path", S("jvfix2.A")), ("dict_kwargs", D(("zz", I(1)))))},
                    {"raw": D(("class_path", S("jvfix2.B")), ("dict_kwargs", D(("yy", I(2)))))}])
    add(f, "Base", [{"raw": D(("class_path", S("jvfix2.A")), ("dict_kwargs", D(("zz", I(1)))))},
                    {"raw": D(("dict_kwargs", D(("yy", I(2)))))}])
    add(f, "Base", [{"nested": ["c"], "raw": I(1)}])                      # abstract declared type: no implicit class_path
    add(f, "Base", [{"raw": S("C")}])                                      # required parameter missing
    add(f, "Base", [{"raw": S("Base")}])                                   # abstract class by name
    add(f, "Base", [{"raw": S("jvfix2.Base")}])                            # abstract class by path
    # a dict_kwargs key that names a parameter is moved to init_args and validated
    add(f, "Base", [{"raw": D(("class_path", S("jvfix2.A")), ("dict_kwargs", D(("a", S("abc")))))}])
    add(f, "Base", [{"raw": D(("class_path", S("jvfix2.A")), ("dict_kwargs", D(("a", I(9)), ("zz", I(1)))))}])
    add(f, "Base", [{"raw": D(("class_path", S("jvfix2.A")), ("dict_kwargs", D(("a", I(9)))))}], channel="object")
    # nested class arguments two levels deep, built children first
    f = {"mod": "jvfix3", "funcs": [], "consts": ["K0"], "classes": [
        _K("Leaf", [], [_P("n", ["int"], I(1))]),
        _K("Pair", [], [_P("l", ["cls", "Leaf"]), _P("r", ["cls", "Leaf"])]),
        _K("Root", [], [_P("p", ["cls", "Pair"]), _P("q", ["opt", "Pair"], N)])]}
    leaf = lambda n: D(("class_path", S("jvfix3.Leaf")), ("init_args", D(("n", I(n)))))  # noqa: E731
    pair = lambda a, b: D(("class_path", S("jvfix3.Pair")), ("init_args", D(("l", leaf(a)), ("r", leaf(b)))))  # noqa: E731
    add(f, "Root", [{"raw": D(("class_path", S("jvfix3.Root")), ("init_args", D(("p", pair(1, 1)), ("q", pair(1, 1)))))}])
    add(f, "Root", [{"nested": ["p"], "raw": S("Pair")}, {"nested": ["p", "l"], "raw": S("Leaf")},
                    {"nested": ["p", "r"], "raw": S("Leaf")}, {"nested": ["p", "r", "n"], "raw": I(3)}])
    # several class-typed options whose names are prefixes of each other, two merged config sources, class change in the second
    f = {"mod": "jvfix2", "funcs": [], "consts": ["K0"], "classes": [k for k in out[10]["fam"]["classes"]]}
    A = lambda **kw: D(("class_path", S("jvfix2.A")), ("init_args", D(*[(k, I(v)) for k, v in kw.items()])))  # noqa: E731
    Cc = D(("class_path", S("jvfix2.C")), ("init_args", D(("c", I(1)))))
    for names in (["x", "x_ema"], ["x_ema", "x"], ["x", "x2", "y"]):
        opts = [{"name": o, "base": "Base", "dflt": None} for o in names]
        first = {"cfg": [[o, A(a=5 + i, c=7 + i)] for i, o in enumerate(names)]}
        second = {"cfg": [[o, (Cc if o != "x" else A(c=9))] for o in names]}
        out.append(multi_case(f, opts, [first, second]))
        out.append(multi_case(f, opts, [first, {"opt": names[-1], "nested": ["c"], "raw": I(2)}, second]))
    # class-typed parameters whose names are prefixes of each other, class change of the longer-named one
    f = {"mod": "jvfix5", "funcs": [], "consts": ["K0"], "classes": [
        _K("Leaf", [], [_P("n", ["int"], I(1))]), _K("Leaf2", ["Leaf"], [_P("k", ["int"], I(2))]),
        _K("Leaf3", ["Leaf"], [_P("h", ["int"], I(3))]),
        _K("Holder", [], [_P("a", ["opt", "Leaf"], N), _P("ab", ["opt", "Leaf"], N)])]}
    L2 = lambda k: D(("class_path", S("jvfix5.Leaf2")), ("init_args", D(("k", I(k)))))  # noqa: E731
    L3 = D(("class_path", S("jvfix5.Leaf3")), ("init_args", D(("h", I(6)))))
    H = lambda a, ab: D(("class_path", S("jvfix5.Holder")), ("init_args", D(("a", a), ("ab", ab))))  # noqa: E731
    add(f, "Holder", [{"raw": H(L2(5), L2(7))}, {"raw": H(L2(8), L3)}])
    add(f, "Holder", [{"raw": H(L2(5), L2(7))}, {"nested": ["ab"], "raw": L3}, {"nested": ["a"], "raw": L3}])
    out.append(multi_case(f, [{"name": "x", "base": "Holder", "dflt": None}],
                          [{"cfg": [["x", H(L2(5), L2(7))]]}, {"cfg": [["x", H(L2(8), L3)]]}]))
    # a family that grows while the program runs: bare names of classes defined after the first name resolution
    f = {"mod": "jvfix6", "funcs": [], "consts": ["K0"], "classes": [
        _K("Base", [], [_P("a", ["int"], I(1))]), _K("Early", ["Base"], [_P("b", ["int"], I(2))]),
        _K("Late", ["Base"], [_P("c", ["int"], I(3))]), _K("Later", ["Late"], [_P("d", ["int"], I(4))], abstract=True)]}
    for wname, msteps in (("Early", [{"raw": S("Late")}, {"nested": ["c"], "raw": I(9)}]),
                          ("Nope", [{"raw": D(("class_path", S("Late")), ("init_args", D(("c", I(8)))))}]),
                          ("Base", [{"raw": S("Later")}])):
        c = {"fam": f, "base": "Base", "dflt": None, "steps": msteps, "channel": "argv", "twin": None}
        c["fam"] = dict(f, mod="jvfix6" + wname.lower())
        c["twin"] = _twin(c)
        c["warm"] = {"fam": sub_family(c["fam"], 2, c["fam"]["mod"]), "base": "Base", "dflt": None, "steps": [{"raw": S(wname)}]}
        out.append(c)
    # an option typed Dict[str, Base] / List[Base] given in several sources: later sources address elements (also not the
    # first one) with short forms that rely on the element's earlier class and init_args
    f = {"mod": "jvfix7", "funcs": [], "consts": ["K0"], "classes": [
        _K("Base", [], [_P("a", ["int"], I(1))]),
        _K("Ab", [], [_P("a", ["int"], I(4))], abstract=True),
        _K("S1", ["Base", "Ab"], [_P("a", ["int"], I(2)), _P("b", ["str"], S("x"))], varkw=True),
        _K("S2", ["Base", "Ab"], [_P("a", ["int"], I(3)), _P("c", ["int"], I(5))])]}
    sp = lambda cls, **kw: D(("class_path", S("jvfix7." + cls)), ("init_args", D(*[(k, (I(v) if isinstance(v, int) else S(v))) for k, v in kw.items()])))  # noqa: E731,E501
    ia = lambda **kw: D(("init_args", D(*[(k, (I(v) if isinstance(v, int) else S(v))) for k, v in kw.items()])))  # noqa: E731
    first = [["k1", sp("S1", a=7)], ["k2", sp("S2", a=8)], ["k3", sp("S1", b="y")]]
    short = [["k1", ia(b="q")], ["k2", ia(c=9)], ["k3", ia(a=9)]]
    expl = [["k1", sp("S1", b="q")], ["k2", sp("S2", c=9)], ["k3", sp("S1", a=9)]]
    for base in ("Base", "Ab"):
        for second in (short, expl, short[1:], [short[2], short[0]], [["k2", S("S1")], ["k9", ia(a=1)]]):
            out.append(cont_case(f, base, "dict", [{"dict": first, "via": "opt"}, {"dict": second, "via": "opt"}]))
        out.append(cont_case(f, base, "dict", [{"dict": first, "via": "cfg"}, {"dict": short, "via": "cfg"}]))
        out.append(cont_case(f, base, "dict", [{"dict": first, "via": "opt"}, {"key": "k2", "raw": ia(c=9)}, {"key": "k9", "raw": S("S2")}]))
        lfirst = [sp("S1", a=7), sp("S2", a=8)]
        out.append(cont_case(f, base, "list", [{"list": lfirst, "via": "opt"}, {"list": [ia(b="q"), ia(c=9)], "via": "opt"}]))
        out.append(cont_case(f, base, "list", [{"list": lfirst, "via": "opt"}, {"list": [ia(a=0)], "via": "opt"}]))
        out.append(cont_case(f, base, "list", [{"list": lfirst, "via": "cfg"}, {"append": S("S1")}, {"last": ["b"], "raw": S("q")},
                                               {"last": ["init_args", "a"], "raw": I(6)}]))
    # a class-typed parameter nested in another class whose DEFAULT is a class spec naming a proper subclass
    # (lazy_instance(Sub, y=7)): short forms rely on the default's class, whatever was given for the outer class before
    dspec = lambda cls, **kw: {"spec": {"cp": "jvfix8." + cls, "ia": [[k, I(v)] for k, v in kw.items()], "dk": []}}  # noqa: E731
    f = {"mod": "jvfix8", "funcs": [], "consts": ["K0"], "subs": [], "exports": [], "classes": [
        _K("Base", [], [_P("x", ["int"], I(1))]),
        _K("Sub", ["Base"], [_P("x", ["int"], I(2)), _P("y", ["int"], I(3))]),
        _K("Oth", ["Base"], [_P("y", ["int"], I(4)), _P("z", ["int"], I(5))]),
        _K("Outer", [], [_P("name", ["str"], S("n")), _P("inner", ["cls", "Base"], dspec("Sub", y=7)),
                         _P("opt", ["opt", "Base"], dspec("Oth", z=8))])]}
    osp = lambda inner: D(("class_path", S("jvfix8.Outer")), ("init_args", D(("inner", inner))))  # noqa: E731
    add(f, "Outer", [{"raw": S("Outer")}])
    for inner in (D(("init_args", D(("x", I(5))))), D(("x", I(5))), D(("init_args", D(("y", I(9))))), S("Sub"), S("Oth"),
                  D(("class_path", S("Oth")), ("init_args", D(("z", I(1))))), S("Base")):
        add(f, "Outer", [{"raw": osp(inner)}])
        add(f, "Outer", [{"raw": osp(inner)}], channel="object")
    add(f, "Outer", [{"nested": ["inner", "x"], "raw": I(5)}])
    add(f, "Outer", [{"nested": ["inner", "init_args", "y"], "raw": I(9)}])
    add(f, "Outer", [{"nested": ["name"], "raw": S("z")}, {"nested": ["inner", "x"], "raw": I(5)}])
    add(f, "Outer", [{"nested": ["inner", "x"], "raw": I(5)}, {"nested": ["name"], "raw": S("z")}])
    add(f, "Outer", [{"nested": ["inner"], "raw": S("Oth")}, {"nested": ["inner", "z"], "raw": I(6)}])
    add(f, "Outer", [{"nested": ["opt"], "raw": N}])
    add(f, "Outer", [{"nested": ["opt", "y"], "raw": I(1)}])
    add(f, "Outer", [{"nested": ["opt"], "raw": N}, {"nested": ["opt", "y"], "raw": I(1)}])
    add(f, "Outer", [{"nested": ["opt"], "raw": S("Sub")}])
    out.append(cont_case(f, "Outer", "list", [{"list": [osp(D(("init_args", D(("x", I(3))))))], "via": "opt"}]))
    # a family spread over a package: __init__ re-exports Disc under the name of ANOTHER class (Circle), Ruler under its
    # own name (its canonical path gets shorter) and Circle under a new name
    f = {"mod": "jvfix9", "funcs": [], "consts": ["K0"], "classes": [
        _K("Base", [], [_P("a", ["int"], I(1))]),
        _K("Circle", ["Base"], [_P("r", ["int"], I(1))]), _K("Ruler", ["Base"], [_P("l", ["int"], I(2))]),
        _K("Disc", ["Base"], [_P("r", ["int"], I(3)), _P("w", ["int"], I(4))]), _K("Lone", [], [_P("q", ["int"], I(0))])],
        "subs": [["Circle", "s1"], ["Ruler", "s1"], ["Disc", "s2"], ["Lone", "s2"]],
        "exports": [["Circle", "Disc"], ["Ruler", "Ruler"], ["Alias0", "Circle"], ["Lone", "Lone"]]}
    for cp in ("jvfix9.s1.Circle", "jvfix9.Circle", "jvfix9.s2.Disc", "jvfix9.s1.Ruler", "jvfix9.Ruler", "jvfix9.Alias0",
               "Circle", "Disc", "Ruler", "jvfix9.s2.Lone", "jvfix9.Lone", "jvfix9.s1.Disc", "jvfix9.s1", "jvfix9.s3.Circle"):
        add(f, "Base", [{"raw": S(cp)}])
        add(f, "Base", [{"raw": D(("class_path", S(cp)), ("init_args", D(("r", I(5)))))}])
    add(f, "Base", [{"raw": S("jvfix9.s1.Circle")}, {"nested": ["r"], "raw": I(6)}])
    add(f, "Base", [{"raw": S("jvfix9.Circle")}, {"nested": ["w"], "raw": I(6)}])
    add(f, "Base", [{"raw": S("jvfix9.s1.Circle")}, {"raw": S("jvfix9.Circle")}, {"nested": ["r"], "raw": I(6)}])
    # a private (underscore) class between the declared type and a public class: the private class itself is not offered
    # by bare name, everything below it is
    f = {"mod": "jvfix10", "funcs": [], "consts": ["K0"], "subs": [], "exports": [], "classes": [
        _K("Base", [], [_P("a", ["int"], I(1))]),
        _K("_Shared", ["Base"], [_P("a", ["int"], I(2)), _P("s", ["int"], I(0))]),
        _K("Deep", ["_Shared"], [_P("a", ["int"], I(3)), _P("d", ["int"], I(0))]),
        _K("_Low", ["Deep"], [_P("a", ["int"], I(4))]), _K("Lowest", ["_Low"], [_P("l", ["int"], I(5))]),
        _K("Holder", [], [_P("h", ["cls", "_Shared"]), _P("o", ["opt", "Base"], N)])]}
    for nm in ("Deep", "_Shared", "jvfix10._Shared", "Lowest", "_Low", "jvfix10.Deep"):
        add(f, "Base", [{"raw": S(nm)}])
        add(f, "Base", [{"raw": D(("class_path", S(nm)), ("init_args", D(("a", I(9)))))}])
        add(f, "Holder", [{"nested": ["h"], "raw": S(nm)}, {"nested": ["o"], "raw": D(("class_path", S(nm)))}])
    add(f, "_Shared", [{"raw": S("Lowest")}, {"nested": ["l"], "raw": I(7)}])
    add(f, "_Shared", [{"nested": ["a"], "raw": I(7)}])
    out.append(cont_case(f, "Base", "list", [{"list": [S("Deep"), D(("class_path", S("Lowest")))], "via": "opt"}]))
    # a declared parameter given in init_args AND in dict_kwargs of one spec: the dict_kwargs copy is validated and wins
    f = {"mod": "jvfix11", "funcs": [], "consts": ["K0"], "subs": [], "exports": [], "classes": [
        _K("Base", [], [_P("a", ["int"], I(1))]),
        _K("Sub", ["Base"], [_P("a", ["int"], I(2)), _P("b", ["str"], S("x"))], varkw=True),
        _K("Plain", ["Base"], [_P("a", ["int"], I(5)), _P("b", ["str"], S("y"))]),
        _K("Holder", [], [_P("k", ["int"], I(3)), _P("h", ["cls", "Base"])])]}
    for cls in ("Sub", "Plain"):
        for dkv in (S("oops"), I(9)):
            spec = D(("class_path", S("jvfix11." + cls)), ("init_args", D(("a", I(3)), ("b", S("q")))), ("dict_kwargs", D(("a", dkv))))
            add(f, "Base", [{"raw": spec}])
            add(f, "Base", [{"raw": spec}], channel="object")
            add(f, "Holder", [{"raw": D(("class_path", S("Holder")), ("init_args", D(("h", spec))))}])
        add(f, "Base", [{"raw": D(("class_path", S(cls)), ("init_args", D(("b", S("q")))), ("dict_kwargs", D(("b", I(5)), ("zz", I(1)))))}])
    # a fault history: a parser whose option default is invalid fails first; then, on a fresh parser, a class change
    for n, (wd, steps) in enumerate((
            (("Sub", ("a", S("oops"))), [{"raw": S("Sub")}, {"raw": S("jvfix11f0.Base")}]),
            (("Sub", ("zz", I(1))), [{"raw": D(("class_path", S("Sub")), ("init_args", D(("b", S("q")))))}, {"raw": S("jvfix11f1.Plain")}]),
            (("Plain", ("a", S("oops"))), [{"raw": S("Plain")}, {"nested": ["b"], "raw": S("w")}, {"raw": S("Base")}]))):
        fm = dict(f, mod="jvfix11f%d" % n)
        c = {"fam": fm, "base": "Base", "dflt": None, "steps": steps, "channel": "argv", "twin": None}
        c["twin"] = _twin(c)
        c["warm"] = {"fam": fm, "base": "Base", "steps": [],
                     "dflt": {"spec": {"cp": "jvfix11f%d.%s" % (n, wd[0]), "ia": [list(wd[1])], "dk": []}}}
        out.append(c)
    # a second module defines a homonym of Sub (and of Leaf): the bare name is ambiguous below Base, not for the declared
    # type Sub itself; the explicit path, Deep (below the homonym's original) and Oth are not affected
    f12 = {"mod": "jvfix12", "funcs": [], "consts": ["K0"], "subs": [], "exports": [], "shadows": ["Leaf", "Sub"], "classes": [
        _K("Base", [], [_P("a", ["int"], I(1))]),
        _K("Sub", ["Base"], [_P("a", ["int"], I(2)), _P("b", ["int"], I(0))]),
        _K("Deep", ["Sub"], [_P("a", ["int"], I(3))]), _K("Oth", ["Base"], [_P("c", ["int"], I(4))]),
        _K("Item", [], [_P("n", ["int"], I(1))]), _K("Leaf", ["Item"], [_P("n", ["int"], I(2))]),
        _K("Holder", [], [_P("h", ["cls", "Base"]), _P("o", ["opt", "Item"], N)])]}
    for nm in ("Sub", "jvfix12.Sub", "Deep", "Oth"):
        add(f12, "Base", [{"raw": S(nm)}])
        add(f12, "Base", [{"raw": D(("class_path", S(nm)), ("init_args", D(("a", I(9)))))}])
        add(f12, "Base", [{"raw": S("Oth")}, {"raw": S(nm)}])
        add(f12, "Sub", [{"raw": S(nm)}])
        add(f12, "Holder", [{"nested": ["h"], "raw": S(nm)}])
        add(f12, "Base", [{"raw": S(nm)}], channel="sub")
    add(f12, "Holder", [{"nested": ["h"], "raw": S("Deep")}, {"nested": ["o"], "raw": S("Leaf")}])
    add(f12, "Holder", [{"nested": ["h"], "raw": S("Deep")}, {"nested": ["o"], "raw": S("jvfix12.Leaf")}, {"nested": ["o", "n"], "raw": I(5)}])
    add(f12, "Base", [{"raw": S("Sub")}], channel="object")
    out.append(cont_case(f12, "Base", "list", [{"list": [S("Deep"), S("Sub")], "via": "opt"}]))
    # the option inside a sub-command; a class group instead of an option; a default given as a string
    f3 = next(c_["fam"] for c_ in out if c_["fam"]["mod"] == "jvfix3")
    for ch in ("sub", "group"):
        add(f3, "Root", [{"nested": ["p"], "raw": S("Pair")}, {"nested": ["p", "l"], "raw": S("Leaf")},
                                     {"nested": ["p", "r"], "raw": S("Leaf")}, {"nested": ["p", "r", "n"], "raw": I(3)}], channel=ch)
        add(f3, "Root", [{"nested": ["p"], "raw": pair(1, 2)}, {"nested": ["q"], "raw": pair(3, 4)}], channel=ch)
        add(f12, "Holder", [{"nested": ["h"], "raw": S("Deep")}, {"nested": ["h", "a"], "raw": I(7)}, {"nested": ["o"], "raw": S("jvfix12.Leaf")}], channel=ch)
        add(f12, "Holder", [{"nested": ["o"], "raw": S("jvfix12.Leaf")}], channel=ch)       # required h missing
    for ds in ("Sub", "jvfix11.Sub", "Plain"):
        for steps in ([{"nested": ["b"], "raw": S("w")}], [{"nested": ["init_args", "a"], "raw": I(7)}], [],
                      [{"raw": S("Plain")}, {"nested": ["a"], "raw": I(7)}]):
            c = {"fam": f, "base": "Base", "dflt": {"spec": {"cp": ds, "ia": [], "dk": []}}, "steps": steps, "channel": "argv",
                 "twin": None, "dflt_str": ds}
            c["twin"] = _twin(c)
            out.append(c)
    # a diamond: D is reachable from Base through L and through R (it must be listed once), Deep below it
    f13 = {"mod": "jvfix13", "funcs": [], "consts": ["K0"], "subs": [], "exports": [], "classes": [
        _K("Base", [], [_P("a", ["int"], I(1))]), _K("L", ["Base"], [_P("a", ["int"], I(2))]),
        _K("R", ["Base"], [_P("a", ["int"], I(3)), _P("r", ["int"], I(0))]),
        _K("D", ["L", "R"], [_P("a", ["int"], I(4)), _P("d", ["int"], I(0))]), _K("Deep", ["D"], [_P("a", ["int"], I(5))]),
        _K("Holder", [], [_P("h", ["cls", "Base"]), _P("o", ["opt", "L"], N)])]}
    for nm in ("D", "Deep", "jvfix13.D"):
        add(f13, "Base", [{"raw": S(nm)}])
        add(f13, "Base", [{"raw": S(nm)}, {"nested": ["a"], "raw": I(9)}])
        add(f13, "L", [{"raw": D(("class_path", S(nm)), ("init_args", D(("a", I(9)))))}])
        add(f13, "Holder", [{"nested": ["h"], "raw": S(nm)}, {"nested": ["o"], "raw": S(nm)}])
        add(f13, "Base", [{"raw": S("R")}, {"raw": S(nm)}], channel="sub")
    out.append(cont_case(f13, "Base", "list", [{"list": [S("D"), S("Deep"), S("L")], "via": "opt"}]))
    # a string default that does NOT name a subclass of the declared type (open finding string-default-unchecked when no item
    # addresses the option; rejected as soon as one does), and one that does not import
    for ds in ("jvfix11.Plain", "jvfix11.Nope", "Plain"):
        for steps in ([], [{"nested": ["b"], "raw": S("w")}], [{"raw": S("jvfix11.Sub")}, {"nested": ["b"], "raw": S("w")}],
                      [{"raw": D(("init_args", D(("a", I(4)))))}]):
            c = {"fam": f, "base": "Sub", "dflt": {"spec": {"cp": ds, "ia": [], "dk": []}}, "steps": steps, "channel": "argv",
                 "twin": None, "dflt_str": ds}
            c["twin"] = _twin(c)
            out.append(c)
    fm = dict(f, mod="jvfix11f9")
    c = {"fam": fm, "base": "Holder", "dflt": None, "channel": "argv", "twin": None,
         "steps": [{"nested": ["h"], "raw": S("Sub")}, {"nested": ["h"], "raw": S("jvfix11f9.Base")}]}
    c["twin"] = _twin(c)
    c["warm"] = {"fam": fm, "base": "Base", "steps": [], "dflt": {"spec": {"cp": "jvfix11f9.Sub", "ia": [["a", S("oops")]], "dk": []}}}
    out.append(c)
    return out


def generate(rng, tier):
    nfam, per = (150, 12) if tier == "quick" else (1200, 14)
    cases = fixed_cases()
    for i in range(nfam):
        fam = gen_family(rng, i)
        cases += gen_cases_for_family(rng, fam, per)
    return cases


def observe(cases):
    # group by family (module name), shard families over processes
    groups = {}
    for n, c in enumerate(cases):
        groups.setdefault(json.dumps(c["fam"], sort_keys=True), []).append(n)
    glist = list(groups.values())
    nproc = 16
    payloads, index = [], []
    for w in range(nproc):
        mine = glist[w::nproc]
        if not mine:
            continue
        batches = []
        for gi, idxs in enumerate(mine):
            fam = dict(cases[idxs[0]]["fam"])
            fam["mod"] = "%s_%d_%d" % (cases[idxs[0]]["fam"]["mod"], w, gi) if False else fam["mod"]
            batches.append({"fam": fam, "cases": [{k: cases[i].get(k) for k in ("base", "dflt", "steps", "channel", "twin", "warm", "multi", "cont", "dflt_str")} for i in idxs]})
        payloads.append({"batches": batches})
        index.append(mine)
    res = run_impl_parallel("c14_classes.py", payloads, timeout=1500)
    out = [None] * len(cases)
    for mine, r in zip(index, res):
        for idxs, rb in zip(mine, r):
            for i, o in zip(idxs, rb):
                out[i] = o
    if len(cases) >= 200:
        _LAST["cases"], _LAST["obs"] = cases, out
    return out


_LAST = {}


def search(rng, tier, broken):
    """Called by the framework when a proof or the tie broke and no spec failure was reported: the failing input is then
    a case on which the implementation no longer behaves like the verified model (the theorems stop speaking about it)."""
    import sys

    from tie import framework as fw

    import time

    mod = sys.modules[__name__]
    t0 = time.time()
    cases, obs = _LAST.get("cases"), _LAST.get("obs")
    if cases is None:
        cases = generate(rng, "quick")
        obs = observe(cases)
    if tier != "quick":              # bounded: never more than one quick-sized batch
        cases, obs = cases[:2000], obs[:2000]
    known = fw.load_known_findings(PROP)
    nfix = len(fixed_cases())
    bad, kind_model = [], True
    for lo, hi in ((0, nfix), (nfix, len(cases))):     # the hand-made cases first: small and usually enough
        bm, bi, bo = fw.judge_cases(mod, cases[lo:hi], obs[lo:hi], tag="x")
        spec_bad = set(bi) | {i for i, k in bo if FINDING_CLASSES.get(k) not in known}   # listed findings are not news
        if spec_bad or bm:
            found = [lo + i for i in (sorted(spec_bad) or sorted(bm))]
            # a case that carries its own history (warm-up parse in the same process) reproduces alone: prefer it
            own = [i for i in found if cases[i].get("warm")]
            if not bad or own:
                bad = own + [i for i in found if i not in own] if own else found
                kind_model = not spec_bad
            if own or spec_bad:
                break
    if not bad:
        return None

    def still(cands):
        o = observe(cands)
        m, b_in, b_out = fw.judge_cases(mod, cands, o, tag="y")
        hit = set(m) if kind_model else set(b_in) | {i for i, k in b_out if FINDING_CLASSES.get(k) not in known}
        return [i in hit for i in range(len(cands))]

    c = cases[bad[0]]
    while time.time() - t0 < 40:      # greedy shrinking within the time budget (about 60 s for the whole search)
        cands = list(shrink(c))[:40]
        if not cands:
            break
        nxt = next((x for x, f in zip(cands, still(cands)) if f), None)
        if nxt is None:
            break
        c = nxt
    o = observe([c])[0]
    ex = describe(c, o)
    ex["note"] = ("the implementation's observable behaviour on this input (accept/reject, normalised spec, constructor log) "
                  "differs from the verified model coq/Model/C14ClassSpec.v" if kind_model else
                  "the observation contradicts the reference semantics coq/Spec/C14Spec.v")
    return {"case": c, "observed": o, "explain": ex}


# ------------------------------------------------------------------------------------------------
# Gallina
# ------------------------------------------------------------------------------------------------
def g_value(v):
    if v is None:
        return "VNull"
    if "i" in v:
        return "(VInt %s)" % g_Z(v["i"])
    if "s" in v:
        return "(VStr %s)" % g_str(v["s"])
    if "null" in v:
        return "VNull"
    if "spec" in v:
        sp = v["spec"]
        return "(VSpec %s %s %s)" % (g_str(sp["cp"]),
                                     g_list([g_pair(g_str(k), g_value(x)) for k, x in sp["ia"]], "(str * value)"),
                                     g_list([g_pair(g_str(k), g_value(x)) for k, x in sp["dk"]], "(str * value)"))
    return "(VStr %s)" % g_str("<weird>")


def g_raw(r):
    if "i" in r:
        return "(RInt %s)" % g_Z(r["i"])
    if "s" in r:
        return "(RStr %s)" % g_str(r["s"])
    if "null" in r:
        return "RNull"
    return "(RDict %s)" % g_list([g_pair(g_str(k), g_raw(x)) for k, x in r["d"]], "(str * raw)")


def g_input(st):
    if "nested" in st:
        return "(INested %s %s)" % (g_list([g_str(x) for x in st["nested"]], "str"), g_raw(st["raw"]))
    return "(IRaw %s)" % g_raw(st["raw"])


def g_csrc(c):
    if "dict" in c:
        return "(CDict %s)" % g_list([g_pair(g_str(k), g_raw(v)) for k, v in c["dict"]], "(str * raw)")
    if "key" in c:
        return "(CDictKey %s %s)" % (g_str(c["key"]), g_raw(c["raw"]))
    if "list" in c:
        return "(CList %s)" % g_list([g_raw(v) for v in c["list"]], "raw")
    if "append" in c:
        return "(CAppend %s)" % g_raw(c["append"])
    return "(CLast %s %s)" % (g_list([g_str(x) for x in c["last"]], "str"), g_raw(c["raw"]))


def g_ty(ty):
    return {"int": "PInt", "str": "PStr"}.get(ty[0]) or "(%s %s)" % ("PCls" if ty[0] == "cls" else "POpt", g_str(ty[1]))


def g_param(p):
    return "{| p_name := %s; p_ty := %s; p_def := %s |}" % (
        g_str(p["name"]), g_ty(p["ty"]), g_opt(g_value(p["def"]) if p["def"] is not None else None))


def g_family(fam):
    cl = g_list(["{| c_name := %s; c_parents := %s; c_params := %s; c_abstract := %s; c_varkw := %s |}" % (
        g_str(k["name"]), g_list([g_str(p) for p in k["parents"]], "str"),
        g_list([g_param(p) for p in k["params"]], "param"), g_bool(k["abstract"]), g_bool(k["varkw"]))
        for k in fam["classes"]], "cls")
    fs = g_list(["{| f_name := %s; f_ret := %s; f_params := %s |}" % (
        g_str(f["name"]), g_str(f["ret"]), g_list([g_param(p) for p in f["params"]], "param")) for f in fam["funcs"]], "func")
    return ("{| fam_mod := %s; fam_classes := %s; fam_funcs := %s; fam_consts := %s; fam_subs := %s; fam_exports := %s; "
            "fam_shadows := %s |}") % (
        g_str(fam["mod"]), cl, fs, g_list([g_str(x) for x in fam["consts"]], "str"),
        g_list([g_pair(g_str(a), g_str(b)) for a, b in fam.get("subs") or []], "(str * str)"),
        g_list([g_pair(g_str(a), g_str(b)) for a, b in fam.get("exports") or []], "(str * str)"),
        g_list([g_str(x) for x in fam.get("shadows") or []], "str"))


def g_arg(a):
    if "i" in a:
        return "(AInt %s)" % g_Z(a["i"])
    if "s" in a:
        return "(AStr %s)" % g_str(a["s"])
    if "null" in a:
        return "ANull"
    if "ref" in a:
        return "(ARef %s)" % g_nat(a["ref"])
    return "(AStr %s)" % g_str("<weird>")


def g_obs(o):
    if o is None:
        return "OOther"
    if "rej" in o:
        return "ORej"
    if "exc" in o:
        return "OOther"
    inst = o["inst"]
    if "ok" in inst:
        log = g_list([g_pair(g_str(c), g_list([g_pair(g_str(k), g_arg(a)) for k, a in kw], "(str * arg)"))
                      for c, kw in inst["ok"]["log"]], "entry")
        io = "(IOk %s %s)" % (g_arg(inst["ok"]["root"]), log)
    elif "typeerr" in inst:
        io = "ITypeErr"
    else:
        io = "IOther"
    return "(OAcc %s %s)" % (g_value(o["acc"]), io)


def term(case, obs):
    twin = "None"
    if case.get("twin") is not None:
        twin = "(Some (%s, %s))" % (g_list([g_input(s) for s in case["twin"]], "input"), g_obs(obs["twin"]))
    cont = "None"
    if case.get("cont"):
        o = obs["main"]
        if o is not None and "rej" in o:
            co = "None"
        elif o is not None and "elems" in o:
            co = "(Some %s)" % g_list([g_pair(g_str(k), g_obs(e)) for k, e in o["elems"]], "(str * obs)")
        else:
            co = "(Some [(%s, OOther)])" % g_str("")
        cont = "(Some (%s, %s))" % (g_list([g_csrc(c) for c in case["cont"]["srcs"]], "csrc"), co)
    sibs = []
    if case.get("multi"):
        m = case["multi"]
        for o, ob in zip(m["opts"][1:], obs.get("sibs") or [None] * len(m["opts"])):
            sibs.append("{| s_base := %s; s_dflt := %s; s_steps := %s; s_obs := %s |}" % (
                g_str(o["base"]), g_opt(g_value(o["dflt"]) if o["dflt"] is not None else None),
                g_list([g_input(x) for x in project(m["argv"], o["name"], m["opts"][0]["name"])], "input"), g_obs(ob)))
    return ("{| k_fam := %s; k_base := %s; k_dflt := %s; k_steps := %s; k_obs := %s; k_twin := %s; k_object := %s; "
            "k_sibs := %s; k_dstr := %s; k_cont := %s |}") % (
        g_family(case["fam"]), g_str(case["base"]),
        g_opt(g_value(case["dflt"]) if case["dflt"] is not None else None),
        g_list([g_input(s) for s in case["steps"]], "input"), g_obs(None if case.get("cont") else obs["main"]), twin,
        g_bool(case["channel"] in ("object", "multi", "cont", "group")), g_list(sibs, "part"),
        g_bool(case.get("dflt_str") is not None), cont)


# ------------------------------------------------------------------------------------------------
# evidence helpers
# ------------------------------------------------------------------------------------------------
def _kind(o):
    if o is None or "exc" in o:
        return "exception"
    if "rej" in o:
        return "rejected"
    if "elems" in o:
        ks = {_kind(e) for _, e in o["elems"]}
        return "accepted/%d elements/%s" % (len(o["elems"]), "built" if ks <= {"accepted/built"} else "TypeError")
    i = o["inst"]
    return "accepted/" + ("built" if "ok" in i else "TypeError" if "typeerr" in i else "other")


def nontrivial_key(case, obs):
    o = obs["main"]
    if o is None:
        return None
    if case.get("cont"):
        if "exc" in o or len(case["cont"]["srcs"]) < 2:
            return None
        return json.dumps([case["fam"], case["base"], case["cont"], o], sort_keys=True)
    if "acc" in o:
        sp = o["acc"].get("spec")
        if not sp:
            return None
        explicit = sum(1 for s in case["steps"] for _ in [0]) >= 2 or any(
            "d" in s["raw"] or "nested" in s for s in case["steps"])
        if not explicit:
            return None
    else:
        txt = json.dumps(case["steps"])
        if "Nope" in txt or "nomod" in txt:
            return None
    return json.dumps([case["fam"], case["base"], case["dflt"], case["steps"], o, case.get("multi"),
                       (case.get("warm") or {}).get("steps")], sort_keys=True)


def category(case, obs):
    if case.get("cont"):
        c = case["cont"]
        return "%s/%d sources/%s" % ("Dict[str,C]" if c["kind"] == "dict" else "List[C]", len(c["srcs"]), _kind(obs["main"]))
    shape = "object" if case["channel"] == "object" else "class group" if case["channel"] == "group" else (
        "%d options/%d config sources" % (len(case["multi"]["opts"]), sum(1 for x in case["multi"]["argv"] if "cfg" in x))
    ) if case.get("multi") else ("grown family/" if case.get("warm") else "") + ("default+" if case["dflt"] else "") + (
        "1 step" if len(case["steps"]) == 1 else "%s steps" % ("2-3" if len(case["steps"]) <= 3 else ">=4"))
    if case["channel"] == "sub":
        shape = "sub-command/" + shape
    if case.get("dflt_str") is not None:
        shape = "string " + shape
    return "%s/%s%s" % (shape, _kind(obs["main"]), "/twin" if case.get("twin") is not None else "")


def describe(case, obs):
    import sys, os
    sys.path.insert(0, os.path.join(os.path.dirname(os.path.dirname(os.path.abspath(__file__))), "impl"))
    from c14_classes import argv_of, module_source, package_source, py_value

    files = package_source(case["fam"])
    d = {"module_source": module_source(case["fam"]) if len(files) == 1 else files, "declared_type": case["base"],
         "default": py_value(case["dflt"]) if case["dflt"] else None, "observed": obs["main"]}
    if case.get("warm"):
        w = case["warm"]
        d["history"] = {"1. module as first loaded": module_source(w["fam"]),
                        "2. earlier parse in the same process (declared type %s, option default %s)" % (
                            w["base"], json.dumps(py_value(w["dflt"])) if w.get("dflt") else None): argv_of(w["steps"]),
                        "2. observed": obs.get("warm"),
                        "3. then defined in the module (plugin loaded)": [k["name"] for k in case["fam"]["classes"]
                                                                          if k["name"] not in {q["name"] for q in w["fam"]["classes"]}],
                        "4. then the parse below": "module_source shows the module after step 3"}
    if case.get("cont"):
        from c14_classes import cont_argv

        c = case["cont"]
        d["option"] = "--m type=%s" % ("Dict[str, %s]" % case["base"] if c["kind"] == "dict" else "List[%s]" % case["base"])
        d["argv"] = cont_argv(c["srcs"])
        d["observed_per_element"] = obs["main"]
        return d
    if case.get("multi"):
        m = case["multi"]
        d["options"] = [{"--" + o["name"]: "type=" + o["base"], "default": py_value(o["dflt"]) if o["dflt"] else None} for o in m["opts"]]
        d["argv"] = argv_of(m["argv"], m["opts"][0]["name"])
        d["observed_per_option"] = dict(zip([o["name"] for o in m["opts"]], [obs["main"]] + list(obs.get("sibs") or [])))
    elif case["channel"] == "object":
        d["parse_object"] = {"x": py_value(case["steps"][0]["raw"])}
    else:
        d["argv"] = (["fit"] if case["channel"] == "sub" else []) + argv_of(case["steps"])
        if case["channel"] == "sub":
            d["parser"] = "the option --x belongs to the parser of the sub-command `fit`"
        if case["channel"] == "group":
            d["parser"] = "parser.add_class_arguments(%s, 'x') instead of an option --x typed %s" % (case["base"], case["base"])
        if case.get("dflt_str") is not None:
            d["default"] = case["dflt_str"]
    if case.get("twin") is not None:
        d["explicit_twin_argv"] = argv_of(case["twin"])
        d["observed_twin"] = obs["twin"]
    return d


def shrink(case):
    if case.get("cont"):
        c = case["cont"]
        sr = c["srcs"]
        for i in range(len(sr)):
            if len(sr) > 1:
                yield cont_case(case["fam"], case["base"], c["kind"], sr[:i] + sr[i + 1:])
        for i, x in enumerate(sr):
            for fld in ("dict", "list"):
                if fld in x and len(x[fld]) > 1:
                    for j in range(len(x[fld])):
                        yield cont_case(case["fam"], case["base"], c["kind"],
                                        sr[:i] + [dict(x, **{fld: x[fld][:j] + x[fld][j + 1:]})] + sr[i + 1:])
        return
    if case.get("multi"):
        m = case["multi"]
        for i in range(len(m["argv"])):
            if len(m["argv"]) > 1:
                a2 = m["argv"][:i] + m["argv"][i + 1:]
                if all(project(a2, o["name"], m["opts"][0]["name"]) for o in m["opts"]):
                    yield multi_case(case["fam"], m["opts"], a2)
        if len(m["opts"]) > 2:
            for j in range(len(m["opts"])):
                o2 = m["opts"][:j] + m["opts"][j + 1:]
                keep = {o["name"] for o in o2}
                a2 = []
                for st_ in m["argv"]:
                    if "cfg" in st_:
                        e = [kv for kv in st_["cfg"] if kv[0] in keep]
                        if e:
                            a2.append({"cfg": e})
                    elif st_.get("opt", m["opts"][0]["name"]) in keep:
                        a2.append(dict(st_, opt=st_.get("opt", m["opts"][0]["name"])))
                if a2 and all(project(a2, o["name"], o2[0]["name"]) for o in o2):
                    yield multi_case(case["fam"], o2, a2)
        return
    for c in _shrink_single(case):
        if case.get("warm"):
            c["warm"] = case["warm"]
        yield c
    if case.get("warm") and len(case["warm"]["steps"]) > 1:
        yield dict(case, warm=dict(case["warm"], steps=case["warm"]["steps"][:1]))


def _shrink_single(case):
    st = case["steps"]
    for i in range(len(st)):
        if len(st) > 1:
            c = dict(case, steps=st[:i] + st[i + 1:])
            c["twin"] = _twin(c)
            yield c
    if case["dflt"] is not None and st:
        c = dict(case, dflt=None)
        c["twin"] = _twin(c)
        yield c
    for i, s in enumerate(st):
        r = s["raw"]
        if "d" in r:
            for j in range(len(r["d"])):
                k, v = r["d"][j]
                if "d" in v and len(v["d"]) > 0:
                    for m in range(len(v["d"])):
                        v2 = {"d": v["d"][:m] + v["d"][m + 1:]}
                        c = dict(case, steps=st[:i] + [dict(s, raw={"d": r["d"][:j] + [[k, v2]] + r["d"][j + 1:]})] + st[i + 1:])
                        c["twin"] = _twin(c)
                        yield c
                if k != "class_path":
                    c = dict(case, steps=st[:i] + [dict(s, raw={"d": r["d"][:j] + r["d"][j + 1:]})] + st[i + 1:])
                    c["twin"] = _twin(c)
                    yield c


def _twin(c):
    if c["channel"] not in ("argv", "sub"):
        return None
    tw = expand_steps(c["fam"], c["base"], c["dflt"], c["steps"])
    return tw if tw != c["steps"] else None

"""C08 — parse / validate / dump / save / merge / strip / instantiate / get_defaults never modify what they are given.
Real jsonargparse vs Model/C08Heap.v (heap of mutable containers + bracketed globals) vs Spec/C08FrameSpec.v."""
import os

from tie import framework as fw
from tie.framework import g_bool, g_list, g_nat, g_pair, g_str, g_Z

PROP = "C08"
IMPORTS = "From JV Require Import Lib.Base Model.C08Heap Model.C08Inst Spec.C08FrameSpec Corr.C08Judge."
RULE = ("one API call {get_defaults, parse_object(dict|Namespace), parse_string, parse_path, validate, validate(branch=KEY) with all "
        "arguments declared below KEY, dump(skip_validation?), "
        "save(existing file?), merge_config, strip_unknown, instantiate_classes} on a seeded random parser (2-5 arguments of type "
        "int, str, Optional, List, Dict[str,.], Tuple with lists/dicts inside (also two and three tuple levels deep), nested up to "
        "depth 4; the directory of the file of parse_path / save is plain, reached through a symlink, given relative to the cwd, or "
        "both; defaults are caller-owned "
        "objects) and seeded random argument objects: parsed-form or raw (numbers as strings, tuples given for lists and lists "
        "for tuples), ~30% made to fail (wrong value, preferably at the LAST key, unknown key, wrong arity, existing file), a few "
        "with one container shared between two keys. Before/after: deep snapshot (value, type, identity of every nested "
        "container) of every argument and every declared default, get_defaults(), cwd, os.environ, argparse.Namespace, the 7 "
        "parser ContextVars, current_path_dir, sub_defaults. non-trivial = the objects handed over contain >= 2 containers; "
        "distinct = distinct (parser, objects, call). Plus 'instantiate twice' cases: a seeded random parser with 1-4 arguments of "
        "type Base / Optional[Base] / List[Base] (test classes Unit, Leaf, Node, Pair, Bag, Deep; Pair and Deep take their sub-objects "
        "from SIGNATURE DEFAULTS, some arguments have lazy_instance defaults), a random configuration of nested class_path/init_args "
        "specs (depth <= 3) is parsed, instantiate_classes is called twice on it and the identity of every built object (numbered by "
        "first appearance, objects of the family alive before the calls first) is reported; argument types also Tuple[Base,int], "
        "Tuple[Tuple[Base,int],str], Tuple[Tuple[Tuple[int,Base],List[Base]],int] (specs up to three tuple levels deep), specs with "
        "dict_kwargs; validate and dump (twice) run on the configuration before the two instantiate calls and a deep identity-aware "
        "snapshot of it is compared; non-trivial = at least 2 specs. validate / validate(branch) / dump / instantiate / parse_object cases also declare "
        "list-valued actions (type=t, nargs='*'; t in int, str, List[int], Tuple[int,int], Dict[str,int]); get_defaults cases also declare child arguments with a "
        "dotted dest below a dict-valued argument (--k {..} then --k.hi). Plus, exhaustively, the 136 'bracket' cases: entry point "
        "{parse_args with --cfg file, get_defaults / format_help / print_help / parse_args with default_config_files, List[int] list "
        "file (enable_path), parse_env, and file-less get_defaults / parse_args / parse_object / parse_string / dump(skip_default) / "
        "validate; parse_object / validate / dump of typed lists inside dict-SUBCLASS values (OrderedDict, defaultdict; Dict[str,List[float]], "
        "Mapping[str,List[Enum]], Dict[str,Tuple[List[float],int]]); parse then save(cfg, path) in multi-file mode / dump on parsers with "
        "parse-time links (top level and inside a subcommand; one link leaves its target's parent empty)} x directory flavour {plain, symlink, relative, both} x {succeeds, fails midway} x history {fresh process; argparse.Namespace replaced by another class, "
        "load_value_mode set by an enclosing context and an extra environment variable BEFORE the call} on parsers that also declare "
        "untyped optionals and positionals set by the file and a mapping default (the caller's own dict) with a child argument below it: globals, the argv list / environ dict, action.default "
        "of every declared action and get_defaults() without default config files before vs after. The expected objects of an "
        "'instantiate twice' case are computed by the harness from the configuration given, the parser defaults and the class "
        "signatures (table SIG, checked against tie/impl/c08_classes.py), NOT from the parser's output; lazy_instance defaults also "
        "on Any-typed hints (argument type Any, class Holder); argument type Dict[str,Base]; two-step histories: a hand-written "
        "partial configuration (specs as Namespace objects, class by name, inside lists/dicts) and the result of a parse with "
        "defaults=False are handed as cfg_base= / namespace= to a second parse and snapshotted before/after. Round 6: 40% of the "
        "instantiate cases run on a parser that also has 0-2 CLASS GROUPS (add_class_arguments of a parameterless class; 20% of "
        "them with an EMPTY configuration object; operation OInstantiateGroups of the heap model); 64 more bracket cases: "
        "parse_object / validate / dump / instantiate_classes / parse_args on a parser with Literal, Union, Enum, Set, "
        "Dict[int,.], TypedDict, Type[.], Callable given as class spec, List[dataclass], timedelta, append (--seq+) and nested "
        "(--dk.a) command-line items; validate with a missing required key / a scalar for a group / an unknown nested key; "
        "instantiate_classes through a subcommand with a dataclass argument, a class group and a list-valued action (also with "
        "an empty branch); four default config files (one empty) on a parser whose defaults were declared with set_defaults")
TRUSTED = [
    "Coq 8.16.1 kernel + vm_compute",
    "tie/impl/c08_inst.py + tie/impl/c08_classes.py (walk the built object trees, number identities by first appearance)",
    "hand-written model coq/Model/C08Inst.v (object identity as an allocation counter)",
    "tie/impl/c08_aux.py (bracket cases) and the region lists Model.C08Heap.aux_regions",
    "tie/impl/c08_heap.py (builds the objects, takes the identity-aware snapshots) and the Gallina printer in tie/props/c08.py",
    "hand-written model coq/Model/C08Heap.v, tied by per-case agreement (outcome, write set, aliasing of the result) evaluated inside Coq",
]
ASSUMPTIONS = [
    "strings are canonical non-negative decimals or plain words (never YAML containers/null/bool spellings); dict keys are plain words",
    "heap model: declared defaults conform to their type (or are None); no config files, env parsing, links, subcommands, groups or "
    "meta keys; dotted dests (a child below a dict-valued argument) only in get_defaults cases — the other operations of the heap "
    "model look keys up flat",
    "yaml/json loading of a document is external: the model is handed the loaded object graph (fresh objects)",
    "exception classes are not compared (one kind of ordinary failure in the model): dump(skip_validation=True) is not run on parsers "
    "with list-valued (nargs) actions, where a non-list value raises TypeError past suppress(ValueError); user-defined objects, threads "
    "and C-level state are outside the model",
    "class groups in the heap model: parameterless classes only (the instance is a new empty object stored under the group's flat "
    "key); groups whose class has parameters, dataclass arguments and subcommands are exercised by the bracket cases only",
    "dict subclasses (OrderedDict - which recreate_branches hands over uncopied - and defaultdict) and argument links are NOT in the heap "
    "model: they are only exercised by the bracket cases, where the configuration is snapshotted (value, exact type and identity of "
    "every nested container, exact type of every leaf) before and after the call",
]
EXHAUSTIVE = {"quick": False, "thorough": False}
FINDING_CLASSES = {1: "parse-object-adapts-in-place", 2: "container-below-tuple-shared", 3: "default-below-tuple-shared",
                   4: "empty-config-not-copied"}
# "judge_fixed3": additionally fixes/C08-empty-config-not-copied.patch applied (strip_meta always copies; no guard left).
# "judge_fixed2": additionally fixes/C08-default-below-tuple-shared.patch applied (instantiation model without guard).
# "judge": the pinned tree (faithful model, the two finding classes above; class 9 = fails differently from the listed
# finding => violation).  "judge_fixed": the tree with fixes/C08-container-below-tuple-shared.patch and
# fixes/C08-parse-object-adapts-in-place.patch applied (model run_op_fixed, no guard, no finding class).
# The lead flips the default when both patches have landed; VERIF_C08_JUDGE overrides it for trial runs.
JUDGE = os.environ.get("VERIF_C08_JUDGE", "judge_fixed3")  # repairs landed: /repo d762aa8, e3cc9bb and (default-below-tuple-shared) e8ce5f9

META = {
    "level_text": (
        "Heap model of what the API does to the objects it is handed (coq/Model/C08Heap.v: lists, dicts and Namespaces are heap "
        "cells, tuples are immutable values that may contain cells; recreate_branches/clone/strip_meta, the element write-backs of "
        "adapt_typehints for int/str/Optional/List/Dict[str,.]/Tuple, _apply_actions, _check_value_key and the try/finally regions "
        "parser_context, change_to_path_dir, patch_namespace written in the shape of the code). Proved for ALL parsers, heaps of any "
        "size/nesting (sharing and cycles allowed), all ten operations {get_defaults, parse_object, parse_string, parse_path, "
        "validate, dump, save, merge_config, strip_unknown, instantiate_classes}, success, failure at any point, or fuel exhaustion: "
        "C08_frame / C08_frame_loc (every pre-existing object - arguments, declared defaults, anything else - has afterwards exactly "
        "the content it had, under the guard `no mutable container below a tuple; parse_object given a dict without nested "
        "containers`), C08_brackets_restore (no guard: cwd, argparse.Namespace, the seven parser ContextVars, current_path_dir, "
        "sub_defaults, os.environ are as before after every call), C08_region_without_finally_leaks, C08_defaults_untouched "
        "(get_defaults returns only freshly allocated containers; get_defaults assigns through dotted dests - a child argument "
        "declared below a mapping-valued one - into the copy of the parent's default: set_path, inside C08_fixed_frame / "
        "C08_fixed_defaults_untouched; C08_get_defaults_late_copy_refuted: copying once at the end writes into the declared "
        "dict; list-valued actions (type constructor TNargs: elements written back into the list handed over) and the operation "
        "validate(cfg, branch=KEY) are inside the frame theorems, C08_validate_branch_noclone_refuted). The unguarded statement is false on the pinned tree: "
        "C08_parse_object_mutates_refuted, C08_parse_object_failure_mutates_refuted, C08_dump_tuple_refuted, "
        "C08_get_defaults_shares_refuted (two findings, fixed in /repo since). For the tree with the two fix patches the same model with "
        "recreate_branches rebuilding tuples and parse_object copying its argument satisfies the statement with NO guard: "
        "C08_fixed_frame, C08_fixed_frame_loc, C08_fixed_brackets_restore, C08_fixed_defaults_untouched. Round 6: the operations "
        "include instantiate_classes on a parser with CLASS GROUPS (OInstantiateGroups: strip_meta, the typed components, then per "
        "group a new instance stored under the group's key of the namespace strip_meta returned); C08_fixed_frame now carries the "
        "guard groups_guard (= finding class 4: NOT (empty configuration object AND at least one group)), because strip_meta "
        "returns an empty configuration uncopied and the instances are written into the caller's object "
        "(C08_instantiate_empty_config_refuted, open finding empty-config-not-copied); with strip_meta always copying "
        "(fixes/C08-empty-config-not-copied.patch, model flag sm) C08_fixed3_frame / C08_fixed3_frame_loc / "
        "C08_fixed3_brackets_restore hold for all operations with NO guard. Second sentence of the "
        "property (coq/Model/C08Inst.v: configurations are trees of scalars, lists, tuples and specs listing all parameters of their "
        "class, those coming from signature / parser defaults marked; identity = the n-th object built): "
        "C08_instantiate_twice_fresh / _pairwise_distinct / _spec (two instantiate_classes calls build one object per spec each, all "
        "pairwise distinct, none pre-existing - on the current tree under the guard 'no default-derived spec below a tuple', with "
        "fixes/C08-default-below-tuple-shared.patch without guard), C08_cached_instantiate_refuted, "
        "C08_default_below_tuple_shared_refuted (open finding: below a tuple lazy_instance signature defaults are not expanded into "
        "specs, every instantiation gets the one live default object). Correspondence: one real "
        "API call per case on seeded random parsers/arguments (~30% failing calls), deep identity-aware snapshots of every argument "
        "and declared default, get_defaults(), cwd, os.environ, argparse.Namespace and the context variables before/after; Coq "
        "computes model agreement (outcome, write set, aliasing of the result) and spec agreement per case; plus 'instantiate twice' "
        "cases on parsers with subclass-typed arguments (specs given, lazy_instance parser defaults, specs derived from signature "
        "defaults, specs up to three tuple levels deep) where the identities of all built objects are compared with the model; plus "
        "C08_regions_restore / C08_aux_brackets_restore (any nest of try/finally regions around a body that leaves the globals alone "
        "restores them) tied exhaustively to parse_args --cfg, default_config_files, list files and parse_env on plain, symlinked "
        "and relative directories, succeeding and failing, with action.default of every declared action (value, type, identity) and "
        "get_defaults() without the default config files compared before/after."),
    "level_note": (
        "Partial: not modelled and not proved - the heap effects of parse_args on argument-string lists, format_help, config files "
        "and env parsing (only their try/finally skeleton is modelled; argv list / environ dict unchanged is observed), links, "
        "subcommands, meta keys, Set types, class groups whose class has parameters (nested keys), the effect of parse/validate/dump on class_path/init_args specs (the heap model has no "
        "class types; the instantiation model abstracts the parser away and only says which objects are built), custom instantiators, "
        "user objects with __eq__/__deepcopy__, threads. os.environ is observed but never written by the modelled code. "
        "Single calls only are run against the implementation (histories follow in the model by composing the per-call invariant, "
        "parser-internal caches between calls are not tied). Trusted: Coq kernel/VM, the snapshot harness tie/impl/c08_heap.py and "
        "the Gallina printer, the hand-written model outside the sampled cases. Print Assumptions: closed under the global context."),
    "technique": "Rocq proof: Hoare-style region invariant (old region unchanged, new region closed) over a monadic heap model, "
                 "try/finally brackets by structural induction; vm_compute refutation witnesses; per-case correspondence judged in Coq",
}

I, S = "int", "str"
TYPES = [
    I, S, ["opt", I], ["opt", S],
    ["list", I], ["list", S], ["list", ["list", I]], ["dict", I], ["dict", ["list", I]], ["list", ["dict", I]],
    ["opt", ["list", I]], ["tup2", I, S], ["list", ["tup2", I, I]], ["opt", ["dict", I]],
    ["tup1", ["list", I]], ["tup2", I, ["list", I]], ["tup1", ["list", ["tup2", I, I]]], ["tup1", ["dict", I]],
    ["list", ["tup1", ["list", I]]], ["dict", ["tup2", I, ["list", I]]],
    # containers two and three tuple levels deep (a tuple that holds only leaves and tuples)
    ["tup1", ["tup1", ["list", I]]], ["tup2", ["tup2", I, ["list", I]], S], ["tup1", ["tup2", I, ["list", ["tup2", I, I]]]],
    ["tup2", ["tup1", ["dict", I]], I], ["list", ["tup1", ["tup1", ["list", I]]]], ["tup1", ["tup1", ["tup2", S, ["dict", ["list", I]]]]],
]
SCALARISH = [I, S, ["opt", I], ["opt", S], ["tup2", I, S], ["list", I], ["list", ["tup2", I, I]]]
WORDS = ["x", "ab", "foo", "q1", "12", "7"]
DKEYS = ["k", "m", "p"]
PKEYS = ["a", "b", "c", "d", "e"]
GKEYS = ["u", "v"]          # class groups


class NS(dict):
    """a Namespace in the generator's tree language"""


def has_container_below_tuple(t, below=False):
    if isinstance(t, str):
        return False
    if t[0] in ("list", "dict", "nargs"):
        return below or has_container_below_tuple(t[1], below)
    if t[0] == "opt":
        return has_container_below_tuple(t[1], below)
    return any(has_container_below_tuple(x, True) for x in t[1:])


def gen(rng, t, q):
    """a value for type t; q = {raw, swap, bad, json}"""
    if rng.random() < q["bad"]:
        return rng.choice(["foo", None, 5, ["x"], {"k": "x"}, [1, 2, 3]])
    if t == I:
        n = rng.randint(0, 30)
        return str(n) if rng.random() < q["raw"] else n
    if t == S:
        return rng.choice(WORDS)
    k = t[0]
    if k == "opt":
        return None if rng.random() < 0.25 else gen(rng, t[1], q)
    if k in ("list", "nargs"):
        xs = [gen(rng, t[1], q) for _ in range(rng.randint(0, 3))]
        return tuple(xs) if (not q["json"] and rng.random() < q["swap"]) else xs
    if k == "dict":
        return {kk: gen(rng, t[1], q) for kk in rng.sample(DKEYS, rng.randint(0, 2))}
    xs = [gen(rng, x, q) for x in t[1:]]
    if q["json"] or rng.random() < q["swap"]:
        return xs
    return tuple(xs)


CANON = {"raw": 0.0, "swap": 0.0, "bad": 0.0, "json": False}


def gen_parser(rng, pool):
    keys = PKEYS[: rng.randint(2, 5)]
    decls = []
    for k in keys:
        t = rng.choice(pool)
        p_none = 0.75 if has_container_below_tuple(t) else 0.3
        d = None if rng.random() < p_none else gen(rng, t, CANON)
        decls.append([k, t, d])
    return decls


def gen_cfg(rng, decls, q, as_ns=True, p_key=0.85, p_unknown=0.08, fail_last=False):
    cfg = NS() if as_ns else {}
    for k, t, _ in decls:
        if rng.random() < p_key:
            cfg[k] = gen(rng, t, q)
    if fail_last and decls:
        k, t, _ = decls[-1]
        cfg[k] = rng.choice(["foo", ["x"], 5, {"k": "x"}, (1, 2, 3)]) if t not in (S, ["opt", S]) else [1]
    if rng.random() < p_unknown:
        cfg["zz"] = rng.choice([1, "x", [1, 2]])
    # a container shared between two keys of the same type
    if rng.random() < 0.05:
        same = [(a, b) for a in decls for b in decls if a[0] < b[0] and a[1] == b[1] and a[0] in cfg and b[0] in cfg]
        if same:
            a, b = rng.choice(same)
            cfg[b[0]] = cfg[a[0]]
    return cfg


class Flat:
    def __init__(self):
        self.heap = []
        self.memo = {}

    def val(self, o):
        if o is None:
            return {"n": 0}
        if isinstance(o, bool):
            raise ValueError("bool")
        if isinstance(o, int):
            return {"i": o}
        if isinstance(o, str):
            return {"s": o}
        if isinstance(o, tuple):
            return {"t": [self.val(e) for e in o]}
        if id(o) in self.memo:
            return {"r": self.memo[id(o)]}
        loc = len(self.heap)
        self.memo[id(o)] = loc
        self.heap.append(None)
        if isinstance(o, list):
            self.heap[loc] = {"l": [self.val(e) for e in o]}
        elif isinstance(o, NS):
            self.heap[loc] = {"ns": [[k, self.val(v)] for k, v in o.items()]}
        else:
            self.heap[loc] = {"d": [[k, self.val(v)] for k, v in o.items()]}
        return {"r": loc}


def mk_case(decls, op_kind, args=(), content=None, **flags):
    """flatten defaults and arguments into one heap; `keep` holds the trees alive so ids stay unique"""
    fl = Flat()
    keep = [d for _, _, d in decls] + list(args)
    parser = [[k, t, fl.val(d)] for k, t, d in decls]
    op = {"op": op_kind}
    names = ["a", "b"]
    for n, a in zip(names, args):
        op[n] = fl.val(a)
    op.update(flags)
    if content is not None:
        cf = Flat()
        op["root"] = cf.val(content)
        op["cells"] = cf.heap
    del keep
    return {"parser": parser, "heap": fl.heap, "op": op}


# how the directory of a config file / save target is reached: plain, through a symlink, relative to the cwd, both
DIRS = ["plain", "plain", "symlink", "rel", "symrel"]


NARGS_OPS = ("validate", "dump", "instantiate", "parse_object")


def one_case(rng):
    r = rng.random()
    kind = ("parse_object" if r < 0.22 else "dump" if r < 0.36 else "validate" if r < 0.46 else "instantiate" if r < 0.56
            else "merge" if r < 0.64 else "strip_unknown" if r < 0.70 else "save" if r < 0.78 else "get_defaults" if r < 0.83
            else "parse_string" if r < 0.90 else "parse_path")
    simple = rng.random() < 0.45
    pool = [t for t in TYPES if not has_container_below_tuple(t)] if simple else TYPES
    if kind == "parse_object" and rng.random() < 0.35:
        pool = SCALARISH
    decls = gen_parser(rng, pool)
    groups = []
    if kind == "instantiate" and rng.random() < 0.4:
        # a parser that also has CLASS GROUPS (add_class_arguments of a class without parameters): instantiate_classes
        # stores one new instance per group in the namespace it works on
        kind = "instantiate_groups"
        groups = GKEYS[: rng.randint(0, 2)] if rng.random() < 0.15 else GKEYS[: rng.randint(1, 2)]
    if kind in NARGS_OPS or kind == "instantiate_groups":
        # list-valued ACTIONS (nargs): their elements are checked one by one and written back into the list handed over
        for d in decls:
            if rng.random() < 0.3:
                d[1] = ["nargs", rng.choice([I, I, S, ["list", I], ["tup2", I, I], ["dict", I]])]
                d[2] = None if rng.random() < 0.5 else gen(rng, d[1], CANON)
        if kind == "validate" and rng.random() < 0.45:
            kind = "validate_branch"          # validate(branch_namespace, branch="g"), every argument declared as --g.<key>
    failing = rng.random() < 0.3
    style = rng.random()
    q = dict(CANON)
    if style < 0.45:
        pass                                     # parsed form
    elif style < 0.8:
        q.update(raw=0.5, swap=0.3)              # raw input
    else:
        q.update(raw=0.3, swap=1.0)              # everything given as tuples
    if failing and rng.random() < 0.4:
        q["bad"] = 0.15
    fail_last = failing and q["bad"] == 0.0 and rng.random() < 0.7
    if kind == "get_defaults":
        # two cooperating declarations: below a mapping-valued argument with a dict default, a child argument (dotted dest)
        if rng.random() < 0.5:
            for k, t, d in list(decls):
                if t[0] == "dict" and isinstance(d, dict) and rng.random() < 0.8:
                    decls.append([k + ".hi", I, rng.randint(0, 9)])
        return mk_case(decls, kind)
    if kind == "parse_object":
        if style < 0.45:
            q.update(raw=0.5, swap=0.2)
        cfg = gen_cfg(rng, decls, q, as_ns=rng.random() < 0.3, p_key=0.7, fail_last=fail_last)
        return mk_case(decls, kind, [cfg])
    if kind in ("parse_string", "parse_path"):
        q.update(json=True, raw=0.5)
        cfg = gen_cfg(rng, decls, q, as_ns=False, p_key=0.7, fail_last=fail_last)
        cfg = {k: (list(v) if isinstance(v, tuple) else v) for k, v in cfg.items()}
        return mk_case(decls, kind, content=cfg, **({"dir": rng.choice(DIRS)} if kind == "parse_path" else {}))
    if kind == "merge":
        a = gen_cfg(rng, decls, q, p_key=0.5, p_unknown=0.15)
        b = a if rng.random() < 0.05 else gen_cfg(rng, decls, q, p_key=0.8, p_unknown=0.1)
        return mk_case(decls, kind, [a, b])
    if kind == "strip_unknown":
        return mk_case(decls, kind, [gen_cfg(rng, decls, q, p_unknown=0.6)])
    cfg = gen_cfg(rng, decls, q, fail_last=fail_last, p_unknown=0.08 if failing else 0.0)
    if rng.random() < 0.03:
        cfg = NS()
    if kind == "dump":
        # dump(skip_validation=True) of a value that is no list for a list-valued action raises TypeError out of
        # suppress(ValueError); the model has one kind of ordinary failure only, so such dumps validate first
        has_nargs = any(t[0] == "nargs" for _, t, _ in decls if not isinstance(t, str))
        return mk_case(decls, kind, [cfg], skipval=rng.random() < 0.25 and not has_nargs)
    if kind == "save":
        return mk_case(decls, kind, [cfg], exists=failing and rng.random() < 0.3, dir=rng.choice(DIRS))
    if kind == "instantiate_groups":
        if rng.random() < 0.2:
            cfg = NS()                            # an empty configuration: everything comes from the groups
        return mk_case(decls, kind, [cfg], groups=groups)
    return mk_case(decls, kind, [cfg])


def fixed_cases():
    """the reproduced findings and their in-guard neighbours, always run first"""
    LL = ["list", ["list", I]]
    T = ["tup1", ["list", ["tup2", I, I]]]
    cs = [
        mk_case([["k", LL, None]], "parse_object", [{"k": [["1", "2"], [3]]}]),
        mk_case([["k", T, None]], "dump", [NS(k=([(1, 2)],))], skipval=False),
        mk_case([["k", T, None]], "validate", [NS(k=([("1", 2)],))]),
        mk_case([["k", T, None]], "instantiate", [NS(k=([("1", 2)],))]),
        mk_case([["k", ["tup1", ["list", I]], ([1],)]], "get_defaults"),
        mk_case([["a", I, 1]], "parse_object", [NS(a="7")]),
        mk_case([["l", ["list", I], [1, 2]]], "parse_object", [{"l": ["1", "x"]}]),
        mk_case([["k", LL, [[1], [2]]], ["a", I, 3]], "parse_object", [{"k": (("1", "2"), (3,)), "a": "4"}]),
        mk_case([["k", LL, [[1], [2]]], ["a", I, 3]], "dump", [NS(k=[[1, 2], [3]], a=4)], skipval=False),
        mk_case([["k", LL, [[1], [2]]], ["a", I, 3]], "validate", [NS(k=[["1", 2], [3]], a="foo")]),
        mk_case([["k", LL, [[1], [2]]], ["a", I, 3]], "merge", [NS(k=[[5]]), NS(k=[[1, 2], [3]], a=4)]),
        mk_case([["k", LL, [[1], [2]]], ["a", I, 3]], "parse_path", content={"k": [["1"]], "a": "foo"}),
        mk_case([["k", LL, [[1], [2]]], ["a", I, 3]], "save", [NS(k=[["1"]], a=4)], exists=False),
        mk_case([["k", LL, [[1], [2]]], ["a", I, 3]], "save", [NS(k=[["1"]], a=4)], exists=True),
        # a list two tuple levels deep: the outer tuple holds only a tuple
        mk_case([["k", ["tup1", ["tup1", ["list", I]]], None]], "validate", [NS(k=((["1", 2],),))]),
        mk_case([["k", ["tup1", ["tup2", I, ["list", ["tup2", I, I]]]], None]], "dump", [NS(k=((7, [(1, 2)]),))], skipval=False),
        mk_case([["k", ["tup1", ["tup1", ["list", I]]], (([1],),)]], "get_defaults"),
        mk_case([["o", ["dict", I], {"m": 1}], ["o.h", I, 2], ["a", I, 3]], "get_defaults"),
        # list-valued actions, validate(branch=): elements are normalised in the clone, never in the caller's list
        mk_case([["n", ["nargs", I], None], ["a", I, 1]], "validate_branch", [NS(n=["1", 2], a=3)]),
        mk_case([["n", ["nargs", I], None], ["a", I, 1]], "validate_branch", [NS(n=["1", "x"], a=3)]),
        mk_case([["n", ["nargs", ["list", I]], [[1]]], ["a", I, 1]], "validate", [NS(n=[["1", 2], [3]], a="4")]),
        mk_case([["n", ["nargs", I], [1]], ["a", I, 1]], "validate_branch", [NS(n=[1, 2], a="foo")]),
        mk_case([["k", LL, [[1], [2]]], ["a", I, 3]], "parse_path", content={"k": [["1"]], "a": "foo"}, dir="symlink"),
        mk_case([["k", LL, [[1], [2]]], ["a", I, 3]], "parse_path", content={"k": [["1"]], "a": 4}, dir="symrel"),
        mk_case([["k", LL, [[1], [2]]], ["a", I, 3]], "save", [NS(k=[["1"]], a=4)], exists=False, dir="symlink"),
        # class groups: a non-empty and an EMPTY configuration (finding empty-config-not-copied), a parser with groups only
        mk_case([["k", LL, None], ["a", I, 3]], "instantiate_groups", [NS(k=[["1"]], a=4)], groups=["u", "v"]),
        mk_case([["a", I, 3]], "instantiate_groups", [NS()], groups=["u"]),
        mk_case([], "instantiate_groups", [NS()], groups=["u", "v"]),
        mk_case([["a", I, 3]], "instantiate_groups", [NS()], groups=[]),
        mk_case([["a", I, 3]], "instantiate_groups", [NS(a="x")], groups=["u"]),
    ]
    return cs


# ---- "instantiate twice" cases ----------------------------------------------------------------------
# The signatures of tie/impl/c08_classes.py (checked by the runner): parameters in order with their defaults; a dict is a
# lazy_instance(...) default, REQ a parameter without default.
REQ = "<required>"
SIG = {
    "Unit": [],
    "Leaf": [("x", 1)],
    "Open": [("x", 1)],
    "Node": [("child", REQ), ("n", 0)],
    "Pair": [("left", {"cls": "Leaf", "args": {"x": 5}}), ("right", None), ("n", 2)],
    "Bag": [("elems", REQ), ("n", 0)],
    "Holder": [("extra", {"cls": "Leaf", "args": {"x": 4}}), ("n", 0)],       # extra: Any
    "Deep": [("inner", {"cls": "Pair", "args": {"n": 7}})],
}


def expect(v, dflt=False):
    """what the configuration value v stands for: every spec with ALL parameters of its class, those not written in the
    configuration taken from the signature default (marked from_default). Independent of what the parser makes of it."""
    if isinstance(v, dict):
        children = []
        for name, d in SIG[v["cls"]]:
            if name in v["args"]:
                children.append([name, expect(v["args"][name], dflt)])
            else:
                children.append([name, expect(d, True)])
        return {"spec": [v["cls"], dflt, children]}
    if isinstance(v, list):
        return {"list": [expect(x, dflt) for x in v]}
    return {"i": v if isinstance(v, int) and not isinstance(v, bool) else 0}


def expect_map(m):
    return {"list": [expect(x) for x in m.values()]}      # Dict[str, Base]: the values in key order


def expect_decl(kind, given, default):
    if given is None:
        return {"i": 0} if default is None else expect(default, True)
    if kind == "dictbase":
        return expect_map(given)
    if kind == "tupbase":
        return {"tup": [expect(given[0]), expect(given[1])]}
    if kind == "tuptupbase":
        return {"tup": [{"tup": [expect(given[0][0]), expect(given[0][1])]}, {"i": 0}]}
    if kind == "tup3base":
        (a, b), n = given
        return {"tup": [{"tup": [{"tup": [expect(a[0]), expect(a[1])]}, expect(b)]}, expect(n)]}
    return expect(given)


def with_expect(case):
    case["expect"] = [expect_decl(kind, case["cfg"].get(key), d) for key, kind, d in case["decls"]]
    return case


def gen_spec(rng, depth):
    r = rng.random()
    if depth <= 0 or r < 0.3:
        if rng.random() < 0.25:
            return {"cls": "Unit", "args": {}}                 # a class without parameters
        if rng.random() < 0.25:
            return {"cls": "Open", "args": {"x": rng.randint(0, 9)}, "dict_kwargs": {"extra": rng.randint(0, 9)}}
        return {"cls": "Leaf", "args": ({"x": rng.randint(0, 9)} if rng.random() < 0.7 else {})}
    if r < 0.5:
        return {"cls": "Node", "args": {"child": gen_spec(rng, depth - 1), "n": rng.randint(0, 9)}}
    if r < 0.7:
        args = {}
        if rng.random() < 0.4:
            args["left"] = gen_spec(rng, depth - 1)
        if rng.random() < 0.5:
            args["right"] = gen_spec(rng, depth - 1)
        return {"cls": "Pair", "args": args}               # what is not given comes from the signature defaults
    if r < 0.85:
        return {"cls": "Bag", "args": {"elems": [gen_spec(rng, depth - 1) for _ in range(rng.randint(0, 3))]}}
    if r < 0.93:
        return {"cls": "Holder", "args": ({} if rng.random() < 0.7 else {"extra": gen_spec(rng, depth - 1)})}   # Any-typed parameter
    return {"cls": "Deep", "args": ({} if rng.random() < 0.7 else {"inner": gen_spec(rng, depth - 1)})}


def inst_case(rng):
    decls, cfg = [], {}
    for key in PKEYS[: rng.randint(1, 4)]:
        kind = rng.choice(["base", "base", "optbase", "listbase", "tupbase", "tuptupbase", "tup3base", "anybase", "dictbase"])
        if kind == "anybase":                              # add_argument(type=Any, default=lazy_instance(...)), mostly left at the default
            decls.append([key, kind, gen_spec(rng, 1)])
            if rng.random() < 0.3:
                cfg[key] = gen_spec(rng, 1)
            continue
        if kind == "dictbase":                             # Dict[str, Base]
            decls.append([key, kind, None])
            cfg[key] = {kk: gen_spec(rng, rng.randint(0, 2)) for kk in rng.sample(DKEYS, rng.randint(0, 2))}
            continue
        if kind == "tupbase":                              # Tuple[Base, int]
            decls.append([key, kind, None])
            cfg[key] = [gen_spec(rng, rng.randint(0, 2)), rng.randint(0, 9)]
            continue
        if kind == "tuptupbase":                           # Tuple[Tuple[Base, int], str]: a spec two tuple levels deep
            decls.append([key, kind, None])
            cfg[key] = [[gen_spec(rng, rng.randint(0, 2)), rng.randint(0, 9)], rng.choice(WORDS[:4])]
            continue
        if kind == "tup3base":                             # Tuple[Tuple[Tuple[int, Base], List[Base]], int]
            decls.append([key, kind, None])
            cfg[key] = [[[rng.randint(0, 9), gen_spec(rng, 1)], [gen_spec(rng, 1) for _ in range(rng.randint(0, 2))]], rng.randint(0, 9)]
            continue
        dflt = None
        if kind != "listbase" and rng.random() < 0.35:
            dflt = gen_spec(rng, 1)
        decls.append([key, kind, dflt])
        given = rng.random() < (0.8 if dflt is None else 0.4)
        if kind == "listbase":
            cfg[key] = [gen_spec(rng, 2) for _ in range(rng.randint(0, 3))]
        elif given or (kind == "base" and dflt is None):
            cfg[key] = gen_spec(rng, rng.randint(0, 3))
    # declared defaults carry no dict_kwargs: a nested spec of another class given over a default whose nested spec has
    # dict_kwargs keeps those dict_kwargs (Leaf.__init__() got an unexpected keyword argument) — a class_path-change merge
    # defect of parse, nothing to do with C08 (see notes/C08.md), which would only make these cases raise
    for d in decls:
        d[2] = strip_kwargs(d[2])
        # a spec given for the class the declared default already names is MERGED into that default (missing init_args come
        # from the parser default, not from the signature): keep the expectation simple, leave such arguments at their default
        if d[2] is not None and isinstance(cfg.get(d[0]), dict) and cfg[d[0]]["cls"] == d[2]["cls"]:
            del cfg[d[0]]
    return with_expect({"kind": "inst", "decls": decls, "cfg": cfg})


def strip_kwargs(v):
    if isinstance(v, dict) and "cls" in v:
        return {"cls": v["cls"], "args": {k: strip_kwargs(x) for k, x in v["args"].items()}}
    if isinstance(v, list):
        return [strip_kwargs(x) for x in v]
    return v


def fixed_inst_cases():
    leaf = {"cls": "Leaf", "args": {"x": 3}}
    return [with_expect(c) for c in [
        {"kind": "inst", "decls": [["a", "base", None]], "cfg": {"a": leaf}},
        {"kind": "inst", "decls": [["a", "base", None], ["b", "base", None]], "cfg": {"a": {"cls": "Unit", "args": {}}, "b": {"cls": "Unit", "args": {}}}},
        {"kind": "inst", "decls": [["a", "base", None]], "cfg": {"a": {"cls": "Pair", "args": {}}}},          # signature default
        {"kind": "inst", "decls": [["a", "base", {"cls": "Deep", "args": {}}]], "cfg": {}},                    # parser default, nested defaults
        {"kind": "inst", "decls": [["a", "listbase", None], ["b", "optbase", None]],
         "cfg": {"a": [leaf, leaf, {"cls": "Bag", "args": {"elems": [leaf, leaf]}}]}},                         # equal specs, distinct objects
        {"kind": "inst", "decls": [["a", "tuptupbase", None]], "cfg": {"a": [[leaf, 5], "x"]}},               # spec two tuple levels deep
        {"kind": "inst", "decls": [["a", "tuptupbase", None]],
         "cfg": {"a": [[{"cls": "Open", "args": {"x": 2}, "dict_kwargs": {"extra": 3}}, 5], "x"]}},
        {"kind": "inst", "decls": [["a", "tup3base", None]], "cfg": {"a": [[[7, {"cls": "Node", "args": {"child": leaf}}], [leaf]], 5]}},
        # lazy_instance defaults on Any-typed hints: parser argument and signature parameter, left at the default
        {"kind": "inst", "decls": [["a", "anybase", leaf]], "cfg": {}},
        {"kind": "inst", "decls": [["a", "base", None]], "cfg": {"a": {"cls": "Holder", "args": {}}}},
        # a class with a lazy_instance signature default, given below a tuple (finding default-below-tuple-shared)
        {"kind": "inst", "decls": [["a", "tupbase", None]], "cfg": {"a": [{"cls": "Pair", "args": {}}, 1]}},
        # specs inside a list and a dict, reused as cfg_base= / namespace= of a second parse
        {"kind": "inst", "decls": [["a", "listbase", None], ["b", "dictbase", None]],
         "cfg": {"a": [leaf, {"cls": "Unit", "args": {}}], "b": {"k": leaf, "m": {"cls": "Pair", "args": {}}}}},
    ]]


AUX_ENTRIES = ["args_cfg", "dflt_get_defaults", "dflt_help", "dflt_parse_args", "list_file", "parse_env", "dflt_print_help",
               "get_defaults", "parse_args", "parse_object", "parse_string", "dump_skip_default", "validate",
               "od_parse_object", "od_validate", "od_dump", "save_links", "save_links_sub", "dump_links",
               # round 6 (reach): the adapt_typehints branches outside the heap model's types, validate's error branches,
               # instantiate_classes through a subcommand with dataclass argument / class group, several default config files
               "ty_parse_object", "ty_validate", "ty_dump", "ty_instantiate", "ty_parse_args",
               "validate_required", "validate_group_scalar", "validate_group_extra", "inst_sub", "inst_sub_empty",
               "dflt_many_get_defaults", "dflt_many_parse_args"]
AUX_NO_FILE = AUX_ENTRIES[7:16] + ["parse_env", "dump_links"] + AUX_ENTRIES[19:29]


def aux_cases():
    """all of them: entry point x directory flavour x (succeeds | fails midway)"""
    # preset: the call starts in a process whose argparse.Namespace, load_value_mode and os.environ are NOT at their
    # import-time / default values (a history; what was found must be what is left)
    return [{"kind": "aux", "entry": e, "dir": d, "fail": f, "preset": ps} for e in AUX_ENTRIES
            for d in (["plain"] if e in AUX_NO_FILE else ["plain", "symlink", "rel", "symrel"])
            for f in ((False,) if e in ("get_defaults", "dump_links") else (False, True))
            for ps in ((False, True) if d in ("plain", "symrel") else (False,))]


def is_aux(case):
    return case.get("kind") == "aux"



def is_inst(case):
    return case.get("kind") == "inst"


def generate(rng, tier):
    cases = fixed_cases() + fixed_inst_cases() + aux_cases()
    n = 1500 if tier == "quick" else 25000
    for _ in range(n):
        cases.append(one_case(rng))
    for _ in range(150 if tier == "quick" else 2500):
        cases.append(inst_case(rng))
    return cases


def observe(all_cases):
    idx_i = [n for n, c in enumerate(all_cases) if is_inst(c)]
    idx_a = [n for n, c in enumerate(all_cases) if is_aux(c)]
    idx_h = [n for n, c in enumerate(all_cases) if not is_inst(c) and not is_aux(c)]
    out = [None] * len(all_cases)
    if idx_a:
        base = fw.scratch_dir("c08a")
        try:
            res = fw.run_impl("c08_aux.py", {"cases": [all_cases[n] for n in idx_a], "scratch": os.path.join(base, "w")})
        finally:
            import shutil
            shutil.rmtree(base, ignore_errors=True)
        for n, o in zip(idx_a, res):
            out[n] = o
    if idx_h:
        for n, o in zip(idx_h, observe_heap([all_cases[n] for n in idx_h])):
            out[n] = o
    if idx_i:
        ics = [all_cases[n] for n in idx_i]
        nproc = 4
        sigs = {c: [n for n, _ in ps] for c, ps in SIG.items()}
        res = fw.run_impl_parallel("c08_inst.py", [{"cases": ics[i::nproc], "signatures": sigs} for i in range(nproc)])
        got = [None] * len(ics)
        for k, r in enumerate(res):
            got[k::nproc] = r
        for n, o in zip(idx_i, got):
            out[n] = o
    return out


def observe_heap(cases):
    nproc = 16
    chunks = [cases[i::nproc] for i in range(nproc)]
    base = fw.scratch_dir("c08")
    try:
        res = fw.run_impl_parallel("c08_heap.py", [{"cases": ch, "scratch": os.path.join(base, "w%d" % i)} for i, ch in enumerate(chunks)])
    finally:
        import shutil
        shutil.rmtree(base, ignore_errors=True)
    out = [None] * len(cases)
    for k, r in enumerate(res):
        out[k::nproc] = r
    return out


# ---- Gallina ----------------------------------------------------------------------------------
def gv(v):
    (k, x), = v.items()
    if k == "i":
        return "VInt %s" % g_Z(x)
    if k == "s":
        return "VStr %s" % g_str(x)
    if k == "n":
        return "VNone"
    if k == "t":
        return "VTup %s" % g_list(["(%s)" % gv(e) for e in x], "val")
    if k == "r":
        return "VRef %s" % g_nat(x)
    raise ValueError(k)


def gkvs(x, f, ty):
    return g_list([g_pair(g_str(kk), f(vv)) for kk, vv in x], "(str * %s)" % ty)


def gcell(c):
    (k, x), = c.items()
    if k == "l":
        return "CList %s" % g_list(["(%s)" % gv(e) for e in x], "val")
    return "%s %s" % ("CDict" if k == "d" else "CNs", gkvs(x, gv, "val"))


def gty(t):
    if t == I:
        return "TInt"
    if t == S:
        return "TStr"
    k = t[0]
    name = {"list": "TList", "dict": "TDict", "tup1": "TTup1", "tup2": "TTup2", "opt": "TOpt", "nargs": "TNargs"}[k]
    return "(%s %s)" % (name, " ".join(gty(x) for x in t[1:]))


def gop(op):
    k = op["op"]
    a = "(%s)" % gv(op["a"]) if "a" in op else None
    if k == "get_defaults":
        return "OGetDefaults"
    if k == "parse_object":
        return "OParseObject %s" % a
    if k in ("parse_string", "parse_path"):
        return "%s %s (%s)" % ("OParseString" if k == "parse_string" else "OParsePath",
                               g_list([gcell(c) for c in op["cells"]], "cell"), gv(op["root"]))
    if k == "validate":
        return "OValidate %s" % a
    if k == "validate_branch":
        return "OValidateBranch %s" % a
    if k == "dump":
        return "ODump %s %s" % (a, g_bool(op["skipval"]))
    if k == "save":
        return "OSave %s %s" % (a, g_bool(op["exists"]))
    if k == "merge":
        return "OMerge %s (%s)" % (a, gv(op["b"]))
    if k == "strip_unknown":
        return "OStripUnknown %s" % a
    if k == "instantiate":
        return "OInstantiate %s" % a
    if k == "instantiate_groups":
        return "OInstantiateGroups %s %s" % (a, g_list([g_str(x) for x in op["groups"]], "str"))
    raise ValueError(k)


def go(o):
    (k, x), = o.items()
    if k == "i":
        return "OInt %s" % g_Z(x)
    if k == "s":
        return "OStr %s" % g_str(x)
    if k == "n":
        return "ONone"
    if k == "t":
        return "OTup %s" % g_list(["(%s)" % go(e) for e in x], "oval")
    if k == "old":
        return "OOld %s" % g_nat(x)
    if k == "nl":
        return "ONewList %s" % g_list(["(%s)" % go(e) for e in x], "oval")
    if k in ("nd", "nns"):
        return "%s %s" % ("ONewDict" if k == "nd" else "ONewNs", gkvs(x, go, "oval"))
    return "OCut"


def g_ival(t):
    (k, x), = t.items()
    if k == "i":
        return "(IInt %s)" % g_Z(x)
    if k == "spec":
        return "(ISpec %s %s %s)" % (g_bool(x[1]), g_str(x[0]), g_ivals([c for _, c in x[2]]))
    return "(%s %s)" % ("ITup" if k == "tup" else "IList", g_ivals(x))


def g_ivals(xs):
    r = "INil"
    for x in reversed(xs):
        r = "(ICons %s %s)" % (g_ival(x), r)
    return r


def term(case, obs):
    if is_aux(case):
        return ("AuxCase {| a_entry := %s; a_fails := %s; a_preset := %s; a_ok := %s; a_globals := %s; a_args_same := %s; "
                "a_defaults_same := %s |}" % (
                    fw.g_N(AUX_ENTRIES.index(case["entry"])), g_bool(case["fail"]), g_bool(case.get("preset", False)), g_bool(obs["ok"]),
                    g_list([g_bool(b) for b in obs["globals"]], "bool"), g_bool(obs["args_same"]), g_bool(obs["defaults_same"])))
    if is_inst(case):
        return ("InstCase {| i_ok := %s; i_c := %s; i_cfg := %s; i_ids1 := %s; i_ids2 := %s; i_cfg_same := %s |}" % (
            g_bool(obs["ok"]), g_nat(1), g_ivals(case["expect"]), g_list([g_nat(i) for i in obs["ids1"]], "nat"),
            g_list([g_nat(i) for i in obs["ids2"]], "nat"), g_bool(obs["cfg_same"])))
    return "HeapCase " + heap_term(case, obs)


def heap_term(case, obs):
    parser = g_list(["{| d_key := %s; d_ty := %s; d_dflt := %s |}" % (g_str(k), gty(t), gv(d)) for k, t, d in case["parser"]], "decl")
    return ("{| c_parser := %s; c_heap := %s; c_op := %s; c_ok := %s; c_result := %s; c_after := %s; c_globals := %s; "
            "c_defaults_same := %s |}" % (
                parser, g_list([gcell(c) for c in case["heap"]], "cell"), gop(case["op"]), g_bool(obs["ok"]), go(obs["result"]),
                g_list([go(o) for o in obs["after"]], "oval"), g_list([g_bool(b) for b in obs["globals"]], "bool"),
                g_bool(obs["defaults_same"])))


def nontrivial_key(case, obs):
    if is_aux(case):
        return repr((case["entry"], case["dir"], case["fail"], case.get("preset", False)))
    if is_inst(case):
        return None if len(obs["ids1"]) < 2 else repr((case["decls"], case["cfg"]))
    n = len(case["heap"]) + len(case["op"].get("cells", []))
    return None if n < 2 else repr((case["parser"], case["heap"], case["op"]))


def category(case, obs):
    if is_aux(case):
        return "%s/%s/%s" % (case["entry"], case["dir"], "ok" if obs["ok"] else "raised")
    if is_inst(case):
        return "instantiate_twice/%s" % ("ok" if obs["ok"] else "raised")
    return "%s/%s" % (case["op"]["op"], "ok" if obs["ok"] else "raised")


GLOBAL_NAMES = ["cwd", "argparse.Namespace", "parent_parser", "lenient_check", "load_value_mode", "class_instantiators",
                "nested_links", "defaults_cache", "parser_capture", "current_path_dir", "sub_defaults", "os.environ"]


def describe(case, obs):
    if is_aux(case):
        return {"entry point": case["entry"], "directory of the file reached": case["dir"], "made to fail midway": case["fail"],
                "before the call argparse.Namespace was another class, load_value_mode was set and os.environ had an extra variable":
                    case.get("preset", False),
                "returned": obs["ok"], "exception": obs.get("exc", ""),
                "globals_changed": [GLOBAL_NAMES[i] for i, b in enumerate(obs["globals"]) if not b],
                "argument object (argv list / environ dict / configuration; value, exact type and identity of every nested "
                "container, exact type of every leaf) unchanged": obs["args_same"],
                "declared defaults (action.default per action; get_defaults() without default config files) unchanged": obs["defaults_same"]}
    if is_inst(case):
        return {"parser(key,kind,default spec)": case["decls"], "configuration given": case["cfg"],
                "expected objects (spec: class, from_default, parameters)": case["expect"],
                "identities at the spec positions after call 1 (post-order; 0 = an object that existed before, fresh ones 1,2,..)": obs["ids1"],
                "identities after call 2": obs["ids2"],
                "configuration unchanged": obs["cfg_same"], "returned": obs["ok"], "exception": obs.get("exc", "")}
    changed = [n for n, o in enumerate(obs["after"]) if not unchanged(case["heap"][n], o)]
    return {"parser(key,type,default)": case["parser"], "objects_before(loc->content; r=reference to loc)": case["heap"],
            "call": case["op"], "returned": obs["ok"], "exception": obs.get("exc", ""), "result(old=l: the caller's object l)": obs["result"],
            "objects_changed_by_the_call": {str(n): {"before": case["heap"][n], "after": obs["after"][n]} for n in changed},
            "globals_changed": [GLOBAL_NAMES[i] for i, b in enumerate(obs["globals"]) if not b],
            "get_defaults_same_before_and_after": obs["defaults_same"]}


def unchanged(cell, o):
    def v0(v):
        (k, x), = v.items()
        if k == "t":
            return {"t": [v0(e) for e in x]}
        if k == "r":
            return {"old": x}
        return {k: x}
    (k, x), = cell.items()
    if k == "l":
        return o == {"nl": [v0(e) for e in x]}
    return o == {"nd" if k == "d" else "nns": [[kk, v0(vv)] for kk, vv in x]}


def shrink(case):
    """drop one key of a top-level argument object, or one parser argument"""
    if is_aux(case):
        return
    if is_inst(case):
        for i in range(len(case["decls"])):
            if len(case["decls"]) > 1:
                k = case["decls"][i][0]
                yield with_expect(dict(case, decls=case["decls"][:i] + case["decls"][i + 1:],
                                       cfg={a: b for a, b in case["cfg"].items() if a != k}))
        return
    op = case["op"]
    for name in ("a", "b"):
        if name in op and "r" in op[name]:
            loc = op[name]["r"]
            (k, items), = case["heap"][loc].items()
            for i in range(len(items)):
                heap = list(case["heap"])
                heap[loc] = {k: items[:i] + items[i + 1:]}
                yield dict(case, heap=heap)
    if "cells" in op and "r" in op["root"]:
        loc = op["root"]["r"]
        (k, items), = op["cells"][loc].items()
        for i in range(len(items)):
            cells = list(op["cells"])
            cells[loc] = {k: items[:i] + items[i + 1:]}
            yield dict(case, op=dict(op, cells=cells))
    for i in range(len(case["parser"])):
        if len(case["parser"]) > 1:
            yield dict(case, parser=case["parser"][:i] + case["parser"][i + 1:])


def search(rng, tier, broken):
    """bounded search for a failing input after a broken proof / tie: one quick-sized batch with a fresh seed (the default
    of the framework would run the whole thorough generator)"""
    import sys
    mod = sys.modules[__name__]
    cases = generate(rng, "quick")
    obs = observe(cases)
    bad_model, bad_in, bad_out = fw.judge_cases(mod, cases, obs, tag="x")
    known = fw.load_known_findings(PROP)
    bad = sorted(set(bad_in) | {i for i, k in bad_out if FINDING_CLASSES.get(k) not in known})
    if not bad:
        return None
    i = bad[0]
    return {"case": cases[i], "observed": obs[i], "explain": describe(cases[i], obs[i])}

"""C06 — unknown keys are never silently ignored; required keys are enforced.

Generated real parsers (groups, dataclass-typed arguments, class-typed arguments with init_args, List[dataclass],
subcommands) x a valid configuration x one mutation (foreign key inserted at any mapping of the configuration
tree / a key removed / a key nulled, or one of each) x channel; the real parser's answer is compared inside Coq
with Model/C06Validate.v (tie) and Spec/C06Spec.v (the property)."""
import copy
import json
import sys

from tie.framework import g_bool, g_list, g_nat, g_pair, g_str, g_Z, run_impl_parallel

PROP = "C06"
IMPORTS = "From JV Require Import Lib.Base Model.C06Validate Spec.C06Spec Corr.C06Judge."
RULE = ("seeded random declaration trees (depth <= 3: arguments, dotted groups, dataclass arguments with nested dataclass / Optional[dataclass] / "
        "class / list fields, class-typed arguments with 1-2 subclasses, List[dataclass], optional or required subcommands), "
        "signature-derived fields may carry a leading underscore: a required private field is declared like any other, a private "
        "field with a default exists in the source but is not declared), "
        "for 40% of the parsers a construction history of link_arguments(apply_on='instantiate') attempts between top-level "
        "dataclass-/class-typed arguments in random order (pairs a->b.x / b->a.y of which the later one closes a cycle, a target "
        "with a bad key form below a class-typed argument, an unknown source), the program catching the ValueError of the "
        "rejected ones; "
        "one valid configuration each, then every single mutation of it: a foreign key (fresh name, a name declared at "
        "another level, an undeclared private field of the source, or the list-append spelling 'zz+' / '<declared non-list name>+') with values 7 / null / {} / nested mappings / lists inserted into every mapping of the tree "
        "(top level, group, dataclass, class value, init_args, list item, subcommand section incl. a section not in force), "
        "every key removed, every scalar / argument key nulled, plus seeded pairs insertion+removal; each through one of the "
        "channels parse_object / parse_string / argv --cfg / environment APP_CFG (quick: channel drawn per case, thorough: all four), "
        "and again WITHOUT merging defaults (parse_object / parse_string with defaults=False: no subcommand section is created for "
        "the parse, extra sections are only dropped when more than one is given); for parsers with subcommands also: the subcommand "
        "named but its section omitted / empty / only another subcommand's section given. Two more dimensions that must not "
        "change the answer: on the object channel the nested mappings are dict / collections.OrderedDict / collections.defaultdict "
        "instances (drawn per case); 30% of the defaults=True cases on object / string / --cfg build the parser with "
        "default_env=True and run with decoy environment variables APP_<NAME> for the names of nested fields that are not "
        "top-level arguments; 35% (60% for parsers with an Optional[dataclass] parameter) of the mutated cases run on a REUSED parser object that has already parsed (parse_object) its "
        "valid configuration. "
        "Round 6: link attempts also target w.init_args.<int parameter> below a class-typed argument (an accepted one exempts the "
        "parameter in every class of w); foreign names also include a declared name in upper case; foreign values also include "
        "a mapping that mixes leaves with an empty mapping and one with two empty mappings at different depths; for a required "
        "subcommand the dest key also holds a name that is no subcommand (object / config text); 30% of the object / config-text "
        "cases (not parse_string(defaults=False)) carry their top-level / dotted-group List[dataclass] keys in the append spelling "
        "'<key>+'; the leftover-argv check on valid cases also tries a token that does not look like an option. "
        "Non-trivial = the configuration was mutated; distinct = distinct (parser, configuration, channel).")
TRUSTED = [
    "Coq 8.16.1 kernel + vm_compute",
    "tie/impl/c06_validate.py: builds the parser from the declaration tree (source text of dataclasses/classes, add_argument calls), "
    "runs the parse method, extracts the named key with one anchored regex per message family",
    "tie/props/c06.py: Gallina printing of parser / configuration / observation",
    "hand-written model coq/Model/C06Validate.v, tied by per-case agreement evaluated inside Coq",
]
ASSUMPTIONS = [
    "names are unique per level and are not Namespace attribute names, meta keys or 'class_path'/'init_args'/'dict_kwargs'",
    "the arguments of a subcommand do not reuse a top-level argument name of the parent parser, and a foreign key inserted at "
    "the top level is not named like an argument of a subcommand (ActionTypeHint._check_type looks up cfg.get(self.dest) in the "
    "PARENT's namespace for prev_val: an unrelated cross-talk, 'No action for key ... to set its default')",
    "the parser's flat action table with dotted dests is represented by the declaration tree it was built from",
    "defaults=False is exercised on the object and config-text channels only (--cfg behaves like the object channel and APP_CFG "
    "like defaults=True as far as subcommand sections are concerned; not modelled separately)",
    "argv as individual options and individual environment variables are not modelled (the configuration travels as a "
    "whole: object, config string, --cfg string, APP_CFG string)",
    "links: only apply_on='instantiate' links whose target is an int field of a top-level dataclass-typed argument or a "
    "non-private int parameter below the init_args of a top-level class-typed argument (a required PRIVATE parameter that becomes "
    "a link target is dropped from the per-class parser altogether: a rejected key, nothing for C06, not generated); WHICH "
    "attempts the library accepts is observed (the runner reports it per case) and given to model and spec as part of the "
    "parser's history, not predicted (the cycle rule is property C16's); what is modelled and proved is the effect on the "
    "required keys: a rejected attempt changes nothing, an accepted link exempts exactly its target. Links applied on parse "
    "(value propagation, target not settable) are property C15's and are not generated",
    "mapping types on the object channel: dict, OrderedDict, defaultdict; instances of a user-defined dict subclass are not "
    "generated (recreate_branches empties them on the current tree: defect dict-subclass-content-dropped, fix proposed, see notes)",
    "default_env=True is exercised only with decoy variables that are not the variable of any argument of the parser (setting "
    "real arguments through individual environment variables is not modelled)",
    "an Optional[dataclass] parameter is never given the empty mapping {}: observed on the unchanged tree, {} there is treated like "
    "an absent value (the lenient pre-pass turns it into an empty Namespace that merge_config drops), so the required fields "
    "of the dataclass are not asked for and the result is None; noted in notes/C06.md, not modelled",
    "parse history: at most one earlier parse_object of the parser's valid configuration on the same parser object",
    "dict_kwargs (documented escape for unresolved **kwargs) is treated as declared and opaque; never generated",
    "append spelling '<key>+': only for declared List[dataclass] keys at the top level / below dotted groups, on the object and "
    "config-text channels with a previous value to append to (not parse_string(defaults=False), which refuses '<key>+' as unknown; "
    "not inside subcommand sections, where the appended items are checked strictly at merge time even if the section is then "
    "discarded; not through --cfg / APP_CFG, where the merge happens at another moment): over-rejections, not C06's business",
    "a subcommand key holding a name that is no subcommand is generated for REQUIRED subcommands on the object / config-text "
    "channels only (for an optional subcommand the refusal is a value error the model does not predict; through --cfg / APP_CFG "
    "the library ends in a raw AttributeError, reported as an incidental defect)",
    "group-level required=True (add_dataclass_arguments / add_class_arguments(..., required=True), _signatures.py:531-534) is not "
    "generated: add_argument(type=<dataclass>, required=True) ignores `required` by design, and whether a required group counts as "
    "present depends on merged defaults and on empty-mapping survival per mode, which the model does not carry",
    "for parsers with a link history only single mutations are generated (one error at a time): an accepted link removes its "
    "target from the defaults, which changes the key order of the merged namespace and thereby WHICH of two simultaneous errors "
    "is reported first (both are genuine; observed with seed 7: foreign key p.zz and null list-item field r.d[0]._t)",
    "order in which several simultaneous errors are reported is modelled for check_values (depth, then key order) but "
    "_apply_actions' breadth-first queue is modelled depth-first; generated cases carry at most one insertion and one removal",
]
EXHAUSTIVE = {"quick": False, "thorough": False}
# class 9 (outside the guard AND neither the faithful model nor the property explains the observation) is deliberately not listed
FINDING_CLASSES = {2: "foreign-key-in-discarded-subcommand-section"}

POOL = list("abdepqruvwxy")
# names with a leading underscore, only for fields / parameters that come from a signature (dataclass fields, __init__
# parameters): a REQUIRED private parameter is declared and required like any other; a private parameter WITH a default is
# skipped by _add_signature_parameter, i.e. it exists in the source but is NOT declared (kind "hidden": left out of the
# Gallina declaration tree and of the valid configuration, offered as a foreign key)
PRIVATE = ["_t", "_k"]


def vis(fs):
    return [f for f in fs if f[1][0] != "hidden"]
SUBNAMES = ["fit", "test", "run"]
CHANNELS = ["object", "string", "argvcfg", "envcfg"]
NODEF_CHANNELS = ["object", "string"]


# ------------------------------------------------------------------------------------------------------
# declaration trees
# ------------------------------------------------------------------------------------------------------
class Gen:
    def __init__(self, rng):
        self.rng = rng
        self.ncls = 0

    def names(self, n, pool=None):
        pool = POOL if pool is None else pool
        return self.rng.sample(pool, min(n, len(pool)))

    def class_fields(self, depth):
        """fields of a dataclass / parameters of a class: required ones first"""
        rng = self.rng
        n = rng.randint(1, 3)
        fs = []
        names = self.names(n)
        if rng.random() < 0.35:
            names[rng.randrange(len(names))] = rng.choice(PRIVATE)
        for name in names:
            r = rng.random()
            if name.startswith("_"):
                fs.append([name, ["arg", True] if rng.random() < 0.65 else ["hidden"]])
            elif depth <= 0 or r < 0.52:
                fs.append([name, ["arg", rng.random() < 0.5]])
            elif r < 0.66:
                fs.append([name, ["data", False, self.class_fields(depth - 1)]])
            elif r < 0.78:
                fs.append([name, ["class", rng.random() < 0.4, self.classes(depth - 1)]])
            elif r < 0.91:
                # Optional[dataclass] = None: only as a field / parameter that comes from a signature
                fs.append([name, ["odata", self.class_fields(depth - 1)]])
            else:
                fs.append([name, ["list", self.class_fields(depth - 1)]])

        if not vis(fs):
            fs[0][1] = ["arg", True]

        def has_default(d):
            return (d[0] == "arg" and not d[1]) or (d[0] == "class" and not d[1]) or d[0] in ("list", "hidden", "odata")

        return [f for f in fs if not has_default(f[1])] + [f for f in fs if has_default(f[1])]

    def classes(self, depth):
        out = []
        for _ in range(self.rng.randint(1, 2)):
            self.ncls += 1
            out.append(["C%d" % self.ncls, self.class_fields(depth)])
        return out

    def level(self, depth, n, groups=True, pool=None):
        rng = self.rng
        fs = []
        for name in self.names(n, pool):
            r = rng.random()
            if r < 0.35 or depth <= 0:
                fs.append([name, ["arg", rng.random() < 0.4]])
            elif r < 0.5 and groups:
                fs.append([name, ["group", self.level(depth - 1, rng.randint(1, 2))]])
            elif r < 0.68:
                fs.append([name, ["data", False, self.class_fields(depth - 1)]])
            elif r < 0.86:
                fs.append([name, ["class", rng.random() < 0.3, self.classes(depth - 1)]])
            else:
                fs.append([name, ["list", self.class_fields(depth - 1)]])
        return fs

    def parser(self):
        rng = self.rng
        p = {"args": self.level(2, rng.randint(1, 4)), "sub": None}
        # the canonical shape of an Optional[dataclass] parameter (`model.optim`): a top-level dataclass-typed argument with an
        # Optional[dataclass] field that has a required and an optional int field.  Only there does the parameter's action live in
        # the parser that is reused between parses; the random trees above reach this shape too rarely to rely on
        if rng.random() < 0.35:
            free = [n for n in POOL if n not in [a[0] for a in p["args"]]]
            if free:
                a, b, c = rng.sample(POOL, 3)
                fs = [[a, ["odata", [[b, ["arg", True]], [c, ["arg", False]]]]]]
                if rng.random() < 0.5:
                    fs.append([rng.choice([n for n in POOL if n != a]), ["arg", False]])
                p["args"].append([rng.choice(free), ["data", False, fs]])
        if rng.random() < 0.55:
            m = []
            # the arguments of a subcommand do not reuse a top-level name of the parent parser (see ASSUMPTIONS)
            pool = [n for n in POOL if n not in [a[0] for a in p["args"]]]
            for s in rng.sample(SUBNAMES, rng.randint(1, 3)):
                m.append([s, self.level(1, rng.randint(0, 2), pool=pool)])
            p["sub"] = {"req": rng.random() < 0.6, "dest": rng.choice(["subcommand", "cmd"]), "map": m}
        p["links"] = self.links(p) if rng.random() < 0.4 else []
        return p

    def links(self, p):
        """construction history: link_arguments(src, 'tgt.field', apply_on='instantiate') attempts between top-level
        dataclass-typed (targets, sources) and class-typed (sources) arguments, in a random order; which of them the library
        accepts is observed, not predicted: typically the first of a pair a->b.x / b->a.y is accepted and the reverse one is
        refused as a cycle, a target 'w.foo' below a class-typed argument is refused for its form, an unknown source too"""
        rng = self.rng
        used = [a[0] for a in p["args"]]
        if p["sub"]:
            used += [a[0] for _, sargs in p["sub"]["map"] for a in sargs]
        free = [n for n in POOL if n not in used]
        datas = [a for a in p["args"] if a[1][0] == "data" and any(d[0] == "arg" for _, d in a[1][2])]
        while len(datas) < 2 and free:
            name = free.pop(rng.randrange(len(free)))
            fs = [[n, ["arg", rng.random() < 0.7]] for n in rng.sample(POOL, rng.randint(1, 3))]
            fs = [f for f in fs if f[1][1]] + [f for f in fs if not f[1][1]]
            a = [name, ["data", False, fs]]
            p["args"].append(a)
            datas.append(a)
        if len(datas) < 2:
            return []
        a, b = rng.sample(datas, 2)

        def field(x):
            return rng.choice([n for n, d in x[1][2] if d[0] == "arg"])

        out = [{"src": a[0], "tgt": [b[0], field(b)]}, {"src": b[0], "tgt": [a[0], field(a)]}]
        classes = [x for x in p["args"] if x[1][0] == "class"]
        # like the dataclass arguments above: when no top-level class-typed argument has a public int parameter, one is added
        # (a class with 2-3 int parameters, mostly required), so that link targets inside init_args occur regularly
        if not any(d[0] == "arg" and not n.startswith("_") for x in classes for _, ps in x[1][2] for n, d in ps) and free and rng.random() < 0.7:
            name = free.pop(rng.randrange(len(free)))
            self.ncls += 1
            ps = [[n, ["arg", rng.random() < 0.75]] for n in rng.sample(POOL, rng.randint(2, 3))]
            ps = [f for f in ps if f[1][1]] + [f for f in ps if not f[1][1]]
            w = [name, ["class", rng.random() < 0.3, [["C%d" % self.ncls, ps]]]]
            p["args"].append(w)
            classes.append(w)
        if classes and rng.random() < 0.6:
            w = rng.choice(classes)
            out.append({"src": a[0], "tgt": [w[0], "foo"]})
            if rng.random() < 0.5:
                t = rng.choice([a, b])
                out.append({"src": w[0], "tgt": [t[0], field(t)]})
        if rng.random() < 0.4:
            out.append({"src": "zz", "tgt": [b[0], field(b)]})
        # a target INSIDE the init_args of a class-typed argument (w.init_args.<int parameter of one of its classes>): an accepted
        # link of this form reaches the per-class parsers as sub_add_kwargs["linked_targets"] and takes the parameter out of the
        # required_args of every class of w that has it (ActionTypeHint.get_class_parser)
        if classes and rng.random() < 0.85:
            w = rng.choice(classes)
            # not a private parameter: a required private parameter that becomes a link target stops being required and is then
            # skipped like any private parameter with a default, i.e. the key is no longer defined at all (observed; a rejected
            # key, not an accepted one, so nothing for C06)
            params = sorted(set(n for _, ps in w[1][2] for n, d in ps if d[0] == "arg" and not n.startswith("_")))
            if params:
                out.append({"src": rng.choice([a, b])[0], "tgt": [w[0], "init_args", rng.choice(params)]})
        rng.shuffle(out)
        # a target field that does not exist would be a different experiment: keep targets well-formed
        out = [ln for ln in out if ln["tgt"][1] in ("foo", "init_args") or any(n == ln["tgt"][1] for x in datas if x[0] == ln["tgt"][0] for n, _ in x[1][2])]
        return out


# ------------------------------------------------------------------------------------------------------
# valid configurations
# ------------------------------------------------------------------------------------------------------
def valid_fields(rng, fs, full):
    out = {}
    for name, d in vis(fs):
        k = d[0]
        req = (k == "arg" and d[1]) or (k == "data") or (k == "class" and d[1]) or (k == "group" and has_required(d[1]))
        if not req and not full and rng.random() < 0.3:
            continue
        out[name] = valid_value(rng, d, full)
    return out


def has_required(fs):
    for _, d in vis(fs):
        if (d[0] == "arg" and d[1]) or (d[0] == "class" and d[1]):
            return True
        if d[0] == "data" and (d[1] or has_required(d[2])):
            return True
        if d[0] == "group" and has_required(d[1]):
            return True
    return False


def valid_value(rng, d, full):
    k = d[0]
    if k == "arg":
        return rng.randint(0, 9)
    if k == "group":
        return valid_fields(rng, d[1], full)
    if k == "data":
        return valid_fields(rng, d[2], full)
    if k == "odata":
        return valid_fields(rng, d[1], full)
    if k == "class":
        cname, ps = rng.choice(d[2])
        v = {"class_path": "c06gen." + cname}
        ia = valid_fields(rng, ps, full)
        if ia or rng.random() < 0.5:
            v["init_args"] = ia
        return v
    if k == "list":
        return [valid_fields(rng, d[1], full) for _ in range(rng.randint(0, 2))]
    raise ValueError(k)


def valid_config(rng, p):
    cfg = valid_fields(rng, p["args"], rng.random() < 0.5)
    sub = p["sub"]
    if sub:
        names = [s for s, _ in sub["map"]]
        r = rng.random()
        if r < 0.9 or sub["req"]:
            chosen = rng.choice(names)
            explicit = rng.random() < 0.6
            if explicit:
                cfg[sub["dest"]] = chosen
            for s, sargs in sub["map"]:
                if s == chosen:
                    if not explicit or has_required(sargs) or rng.random() < 0.8:
                        cfg[s] = valid_fields(rng, sargs, True)
                elif explicit and rng.random() < 0.25:
                    cfg[s] = valid_fields(rng, sargs, True)
                elif not explicit and names.index(s) > names.index(chosen) and rng.random() < 0.25:
                    cfg[s] = valid_fields(rng, sargs, True)
    return cfg


# ------------------------------------------------------------------------------------------------------
# mutations
# ------------------------------------------------------------------------------------------------------
def mappings(cfg, fs, path=()):
    """(path, declared names or None when unknown) of every mapping of the configuration tree"""
    out = [(path, [n for n, _ in vis(fs)],
            {"nonlist": [n for n, d in vis(fs) if d[0] != "list"], "hidden": [n for n, d in fs if d[0] == "hidden"]})]
    for name, d in vis(fs):
        if name not in cfg:
            continue
        v = cfg[name]
        out += value_mappings(v, d, path + (name,))
    return out


def value_mappings(v, d, path):
    k = d[0]
    out = []
    if k in ("group", "data", "odata") and isinstance(v, dict):
        out += mappings(v, d[2] if k == "data" else d[1], path)
    elif k == "class" and isinstance(v, dict):
        out.append((path, ["class_path", "init_args", "dict_kwargs"], {"nonlist": [], "hidden": []}))
        ps = dict((c, f) for c, f in d[2]).get(str(v.get("class_path", "")).split(".")[-1])
        if ps is not None and isinstance(v.get("init_args"), dict):
            out += mappings(v["init_args"], ps, path + ("init_args",))
    elif k == "list" and isinstance(v, list):
        for i, x in enumerate(v):
            if isinstance(x, dict):
                out += mappings(x, d[1], path + (i,))
    return out


def top_mappings(cfg, p):
    sub = p["sub"]
    decl = [n for n, _ in p["args"]]
    if sub:
        decl += [sub["dest"]] + [s for s, _ in sub["map"]]
    out = [((), decl, {"nonlist": [n for n, d in p["args"] if d[0] != "list"], "hidden": []})]
    out += [m for m in mappings(cfg, p["args"]) if m[0] != ()]
    if sub:
        for s, sargs in sub["map"]:
            if isinstance(cfg.get(s), dict):
                out += mappings(cfg[s], sargs, (s,))
    return out


def all_keys(v, path=()):
    if isinstance(v, dict):
        for k, w in v.items():
            yield path + (k,), w
            yield from all_keys(w, path + (k,))
    elif isinstance(v, list):
        for i, w in enumerate(v):
            yield from all_keys(w, path + (i,))


# incl. mappings without any leaf, one that mixes leaves with an empty mapping, and one with two empty mappings at different
# depths (the pre-pass meets the shallowest first)
FOREIGN_VALUES = [7, None, {}, {"yy": 1}, {"yy": {}}, {"yy": {"k": 1}, "w": 2}, [1], [{"k": 1}], "s",
                  {"yy": {"k": 1}, "w": {}}, {"yy": {"k": {}}, "w": {}}]


def at(cfg, path):
    cur = cfg
    for s in path:
        cur = cur[s]
    return cur


def insert(cfg, path, name, val):
    c = copy.deepcopy(cfg)
    at(c, path)[name] = copy.deepcopy(val)
    return c


def remove(cfg, path, null):
    c = copy.deepcopy(cfg)
    parent = at(c, path[:-1])
    if null:
        parent[path[-1]] = None
    else:
        del parent[path[-1]]
    return c


def removable(cfg):
    """(path, may_null) of keys that may be removed / nulled without leaving the modelled space"""
    out = []
    for path, w in all_keys(cfg):
        if path[-1] == "class_path":
            continue
        may_null = not isinstance(w, dict) or "class_path" in w
        if path[-1] == "init_args":
            may_null = False
        out.append((path, may_null))
    return out


def empty_optional(fs, v):
    """an Optional[dataclass] position holds {} somewhere below mapping v"""
    if not isinstance(v, dict):
        return False
    for name, d in vis(fs):
        if name not in v:
            continue
        w = v[name]
        k = d[0]
        if k == "odata":
            if w == {} or empty_optional(d[1], w):
                return True
        elif k == "group" and empty_optional(d[1], w):
            return True
        elif k == "data" and empty_optional(d[2], w):
            return True
        elif k == "list" and isinstance(w, list) and any(empty_optional(d[1], x) for x in w):
            return True
        elif k == "class" and isinstance(w, dict):
            ps = dict((c, f) for c, f in d[2]).get(str(w.get("class_path", "")).split(".")[-1])
            if ps is not None and empty_optional(ps, w.get("init_args")):
                return True
    return False


def inside_optional(p, path):
    """the key at `path` lies inside the mapping of an Optional[dataclass] parameter (followed through groups, dataclasses, list items)"""
    cur = p["args"]
    if p["sub"] and path and path[0] in dict(p["sub"]["map"]):
        cur = dict(p["sub"]["map"])[path[0]]
        path = path[1:]
    seen = False
    for i, seg in enumerate(path):
        if isinstance(seg, int):
            continue
        d = dict((n, dd) for n, dd in cur).get(seg)
        if d is None or i == len(path) - 1:
            return seen
        k = d[0]
        if k == "odata":
            seen, cur = True, d[1]
        elif k in ("group", "list"):
            cur = d[1]
        elif k == "data":
            cur = d[2]
        else:
            return seen
    return seen


def mutants(rng, p, cfg, tier):
    """list of (label, cfg); configurations that give {} for an Optional[dataclass] are left out (ASSUMPTIONS)"""
    out = _mutants(rng, p, cfg, tier)

    def bad(c):
        if empty_optional(p["args"], c):
            return True
        return bool(p["sub"]) and any(empty_optional(sargs, c.get(s)) for s, sargs in p["sub"]["map"])

    return [out[0]] + [m for m in out[1:] if not bad(m[1])]


def _mutants(rng, p, cfg, tier):
    """list of (label, cfg)"""
    out = [("valid", cfg)]
    maps = top_mappings(cfg, p)
    for path, decl, info in maps:
        names = ["zz"]
        # the list-append syntax on something that is not a list argument: a fresh name and a declared non-list one
        names.append("zz+")
        if info["nonlist"]:
            names.append(rng.choice(info["nonlist"]) + "+")
        # a private parameter that has a default exists in the source but is not defined by the parser
        names += info["hidden"]
        others = [n for n in POOL if n not in decl]
        if path == () and p["sub"]:
            # a top-level key named like an argument of a subcommand is looked up as that argument's previous value
            # (ActionTypeHint._check_type: cfg.get(self.dest) on the parent's namespace): outside the modelled space
            subnames = set(a[0] for _, sargs in p["sub"]["map"] for a in sargs)
            others = [n for n in others if n not in subnames]
        if others:
            names.append(rng.choice(others))
        if path == () and p["sub"]:
            names.append(p["sub"]["dest"][:2])  # a foreign key that is a string prefix of a declared destination
        # a declared name in another letter case is a different key
        cased = [n.upper() for n in decl if n.upper() != n and n.upper() not in decl]
        if cased and rng.random() < 0.5:
            names.append(rng.choice(cased))
        for name in names:
            vals = FOREIGN_VALUES if tier == "thorough" else rng.sample(FOREIGN_VALUES, 3)
            for v in vals:
                out.append(("insert", insert(cfg, path, name, v)))
    rem = removable(cfg)
    for path, may_null in rem:
        # keys inside the mapping given for an Optional[dataclass] parameter get their own label: there are few of them and the
        # quick tier never samples them away (the action of such a parameter keeps state between parses)
        opt = "-in-optional" if inside_optional(p, path) else ""
        out.append(("remove" + opt, remove(cfg, path, False)))
        if may_null:
            out.append(("null" + opt, remove(cfg, path, True)))
    sub = p["sub"]
    if sub:
        c = copy.deepcopy(cfg)
        for k in [sub["dest"]] + [s for s, _ in sub["map"]]:
            c.pop(k, None)
        out.append(("no-subcommand", c))
        # the subcommand is NAMED but its section is omitted / empty / emptied of its required keys
        for s, sargs in sub["map"]:
            base = copy.deepcopy(cfg)
            for k in [x for x, _ in sub["map"]]:
                base.pop(k, None)
            base[sub["dest"]] = s
            out.append(("named-no-section", copy.deepcopy(base)))
            b2 = copy.deepcopy(base)
            b2[s] = {}
            out.append(("named-empty-section", b2))
            others = [x for x, _ in sub["map"] if x != s]
            if others:
                b3 = copy.deepcopy(base)
                b3[others[0]] = valid_fields(rng, dict(sub["map"])[others[0]], True)
                out.append(("named-other-section", b3))
        # the subcommand key holds a name that is not a declared subcommand (only for a REQUIRED subcommand: the model's
        # ENoSub / the spec's "required subcommand missing" cover it; for an optional one the refusal is a value error)
        if sub["req"]:
            c = copy.deepcopy(cfg)
            c[sub["dest"]] = "zz"
            out.append(("misnamed-subcommand", c))
        # a foreign key in a second section (one that may be discarded)
        for s, sargs in sub["map"]:
            if s not in cfg:
                c = copy.deepcopy(cfg)
                c[s] = valid_fields(rng, sargs, True)
                out.append(("extra-section", c))
                c2 = copy.deepcopy(c)
                c2[s]["zz"] = 7
                out.append(("insert", c2))
                break
    # pairs: one removal + one insertion.  Not for parsers with a link history: WHICH of two simultaneous errors is reported
    # first follows the key order of the merged namespace (defaults first), and an accepted link takes its target out of the
    # defaults, which moves that key (or its whole group) behind the others; that order is not modelled (ASSUMPTIONS)
    for _ in range(0 if p.get("links") else (3 if tier == "quick" else 10)):
        if rem and maps:
            path, may_null = rng.choice(rem)
            c = remove(cfg, path, may_null and rng.random() < 0.5)
            mpath, decl, _info = rng.choice(maps)
            try:
                node = at(c, mpath)
            except (KeyError, IndexError, TypeError):
                continue
            if isinstance(node, dict):
                node["zz"] = copy.deepcopy(rng.choice(FOREIGN_VALUES))
                out.append(("pair", c))
    return out


def generate(rng, tier):
    cases = []
    nparsers = 60 if tier == "quick" else 150
    for _ in range(nparsers):
        g = Gen(rng)
        p = g.parser()
        cfg = valid_config(rng, p)
        ms = mutants(rng, p, cfg, tier)
        if tier == "quick" and len(ms) > 60:
            always = lambda m: m[0].startswith("named-") or m[0].endswith("-in-optional") or m[0] in ("no-subcommand", "misnamed-subcommand")
            keep = [m for m in ms[1:] if always(m)][:40]
            rest = [m for m in ms[1:] if m not in keep]
            ms = ms[:1] + keep + rng.sample(rest, max(0, 59 - len(keep)))
        for label, c in ms:
            chans = CHANNELS if (tier == "thorough" and label != "valid") else [rng.choice(CHANNELS)]
            if tier == "thorough" and len(ms) > 150:
                chans = [rng.choice(CHANNELS)]
            if label == "misnamed-subcommand":
                # object / config text only: through --cfg / APP_CFG a name that is no subcommand ends in a raw AttributeError
                # ('NoneType' object has no attribute '_subparsers', handle_subcommands on the partial config) instead of the
                # ArgumentError: rejected all the same, reported to the lead as an incidental robustness defect (not C06)
                chans = NODEF_CHANNELS if tier == "thorough" else [rng.choice(NODEF_CHANNELS)]
            for ch in chans:
                cases.append({"parser": p, "cfg": c, "channel": ch, "label": label, "defaults": True})
            # the same configuration parsed WITHOUT merging defaults (object / config text only: --cfg and APP_CFG
            # behave like one of the two or like defaults=True as far as subcommand sections are concerned)
            if label != "valid":
                nd = NODEF_CHANNELS if tier == "thorough" and len(ms) <= 150 else [rng.choice(NODEF_CHANNELS)]
                if tier == "quick" and not p["sub"] and rng.random() < 0.5:
                    nd = []
                for ch in nd:
                    cases.append({"parser": p, "cfg": c, "channel": ch, "label": label, "defaults": False})
    return decorate(rng, cases)


# a user-defined `class MyDict(dict)` is NOT generated: on the current tree recreate_branches empties such instances (they
# have an instance __dict__), see notes/C06.md "dict-subclass-content-dropped" and fixes/C06-dict-subclass-content-dropped.patch
CONTAINERS = ["dict", "dict", "odict", "ddict", "mydict"]   # mydict: a plain user-defined dict subclass (its content was dropped before the repair in /repo)


def nested_field_names(p):
    """names of fields below the top level of the parser (dataclass fields, class parameters, list-item fields, dotted group
    members, subcommand arguments), minus the names of the parser's own top-level arguments"""
    out = set()

    def walk(fs, depth):
        for name, d in fs:
            if depth > 0:
                out.add(name)
            k = d[0]
            if k == "group":
                walk(d[1], depth + 1)
            elif k == "data":
                walk(d[2], depth + 1)
            elif k in ("list", "odata"):
                walk(d[1], depth + 1)
            elif k == "class":
                for _, ps in d[2]:
                    walk(ps, depth + 1)

    walk(p["args"], 0)
    if p["sub"]:
        for _, sargs in p["sub"]["map"]:
            walk(sargs, 1)
    top = set(n for n, _ in p["args"])
    if p["sub"]:
        top |= {p["sub"]["dest"]} | set(n for n, _ in p["sub"]["map"])
    return sorted(out - top)


def append_paths(p, cfg):
    """paths of the keys of declared List[dataclass] arguments (top level, dotted groups, subcommand sections) that hold a list"""
    out = []

    def walk(fs, v, path):
        if not isinstance(v, dict):
            return
        for name, d in vis(fs):
            if name not in v:
                continue
            if d[0] == "list" and isinstance(v[name], list):
                out.append(list(path) + [name])
            elif d[0] == "group":
                walk(d[1], v[name], path + [name])

    # not inside subcommand sections: an appended item is checked strictly at merge time even when its section is then
    # discarded, so the spelling would reject what the plain spelling accepts (over-rejection; not modelled, see ASSUMPTIONS)
    walk(p["args"], cfg, [])
    return out


def decorate(rng, cases):
    """two more dimensions of HOW a configuration reaches the parser, neither of which may change the answer:
    - object channel: the nested mappings are OrderedDict / defaultdict / a user dict subclass instead of dict;
    - the parser is built with default_env=True and the process environment holds decoy variables APP_<NAME> for the names
      of nested fields (none of them the variable of an argument of this parser)"""
    valid_of = {}
    for c in cases:
        if c.get("label") == "valid":
            valid_of[id(c["parser"])] = c["cfg"]
    for c in cases:
        # parse history: the SAME parser object has already parsed its valid configuration (parse_object) before it is
        # given the mutated one; a reused parser must answer like a fresh one
        # (parsers with an Optional[dataclass] parameter keep per-action state between parses — sub_add_kwargs — and are reused more often)
        if c.get("label") != "valid" and id(c["parser"]) in valid_of and rng.random() < (0.6 if '"odata"' in json.dumps(c["parser"]) else 0.35):
            c["warm"] = [valid_of[id(c["parser"])]]
        if c["channel"] == "object":
            c["container"] = rng.choice(CONTAINERS)
        # the list-append spelling of a declared List[...] key ("x+": [items] appends to the previous value, which is the
        # default [] here): must answer like "x": [items].  Not with parse_string(defaults=False): there the loaded mapping is
        # not merged into anything and the real parser refuses "x+" as an unknown key (an over-rejection, not C06's business)
        # Only on the object / config-text channels: through --cfg / APP_CFG the appended value is merged at another moment, which
        # changes WHICH of two simultaneous errors is reported first (observed: a foreign key reported before a missing list-item field)
        if c["channel"] in ("object", "string") and not (c["channel"] == "string" and not c.get("defaults", True)) and rng.random() < 0.3:
            paths = append_paths(c["parser"], c["cfg"])
            if paths:
                c["append"] = rng.sample(paths, rng.randint(1, len(paths)))
        if c.get("defaults", True) and c["channel"] in ("object", "string", "argvcfg") and rng.random() < 0.3:
            names = nested_field_names(c["parser"])
            if names:
                c["env"] = True
                c["decoys"] = dict(("APP_" + n.upper(), "7") for n in names)
    return cases


def observe(cases):
    n = 16
    chunks = [cases[i::n] for i in range(n)]
    res = run_impl_parallel("c06_validate.py", [{"cases": ch} for ch in chunks], timeout=1500)
    out = [None] * len(cases)
    for k, r in enumerate(res):
        out[k::n] = r
    return out


# ------------------------------------------------------------------------------------------------------
# Gallina
# ------------------------------------------------------------------------------------------------------
def g_decl(d):
    k = d[0]
    if k == "arg":
        return "DArg %s" % g_bool(d[1])
    if k == "group":
        return "DGroup %s" % g_fields(d[1])
    if k == "data":
        return "DData %s %s" % (g_bool(d[1]), g_fields(d[2]))
    if k == "class":
        return "DClass %s %s" % (g_bool(d[1]), g_list([g_pair(g_str(c), g_fields(fs)) for c, fs in d[2]], "(str * args)"))
    if k == "list":
        return "DList %s" % g_fields(d[1])
    if k == "odata":
        return "DOpt %s" % g_fields(d[1])
    raise ValueError(k)


def g_fields(fs):
    return g_list([g_pair(g_str(n), "(%s)" % g_decl(d)) for n, d in vis(fs)], "(str * decl)")


def g_parser(p):
    if p["sub"]:
        s = p["sub"]
        sub = "(Some {| s_req := %s; s_dest := %s; s_map := %s |})" % (
            g_bool(s["req"]), g_str(s["dest"]), g_list([g_pair(g_str(n), g_fields(a)) for n, a in s["map"]], "(str * args)"))
    else:
        sub = "None"
    return "{| p_args := %s; p_sub := %s |}" % (g_fields(p["args"]), sub)


def g_cv(v):
    if v is None:
        return "CNull"
    if isinstance(v, bool):
        raise ValueError("bool")
    if isinstance(v, int):
        return "(CInt %s)" % g_Z(v)
    if isinstance(v, str):
        if v.startswith("c06gen."):
            v = v[len("c06gen."):]
        return "(CStr %s)" % g_str(v)
    if isinstance(v, dict):
        return "(CDict %s)" % g_list([g_pair(g_str(k), g_cv(w)) for k, w in v.items()], "(str * cv)")
    if isinstance(v, list):
        return "(CList %s)" % g_list([g_cv(w) for w in v], "cv")
    raise ValueError(type(v))


def g_keys(ks):
    return g_list([g_str(k) for k in ks], "str")


def g_obs(o):
    r = o["r"]
    if r == "accept":
        return "OAccept"
    if r == "unknown":
        return "(OUnknown %d%%N %s %s)" % (o["fam"], g_keys(o["grp"]), g_keys(o["key"]))
    if r == "badspec":
        return "(OBadSpec %s)" % g_keys(o["extra"])
    if r == "missing":
        return "(OMissing %s)" % g_keys(o["key"])
    if r == "nosub":
        return "(ONoSub %s)" % g_str(o["dest"])
    return "OOther"


def g_mode(case):
    if case.get("defaults", True):
        return "MDefaults"
    return {"object": "MNoDefObj", "string": "MNoDefStr"}[case["channel"]]


def term(case, obs):
    links = case["parser"].get("links") or []
    outcomes = obs.get("links") or [False] * len(links)
    g_links = g_list(["{| l_tgt := %s; l_ok := %s |}" % (g_keys(ln["tgt"]), g_bool(ok)) for ln, ok in zip(links, outcomes)], "lnk")
    return "{| c_mode := %s; c_parser := %s; c_links := %s; c_cfg := %s; c_append := %s; c_obs := %s |}" % (
        g_mode(case), g_parser(case["parser"]), g_links, g_cv(case["cfg"]), g_list([g_keys(a) for a in case.get("append") or []], "(list str)"), g_obs(obs))


def nontrivial_key(case, obs):
    if case.get("label") == "valid":
        return None
    return json.dumps([case["parser"], case["cfg"], case["channel"], case.get("defaults", True), case.get("container"),
                       bool(case.get("env")), bool(case.get("warm")), case.get("append")], sort_keys=True)


def category(case, obs):
    links = "/links:%s" % "".join("a" if x else "r" for x in obs.get("links") or []) if case["parser"].get("links") else ""
    return "%s/%s%s/%s%s" % (case.get("label", "?"), case["channel"], "" if case.get("defaults", True) else "-nodefaults", obs["r"], links)


def describe(case, obs):
    return {"parser_declarations": case["parser"], "configuration": case["cfg"], "channel": case["channel"], "defaults": case.get("defaults", True),
            "object_mapping_type": case.get("container", "dict"), "parsed_before_on_the_same_parser": case.get("warm") or None, "default_env_with_decoy_variables": case.get("decoys") or None, "list_keys_given_in_append_spelling": case.get("append") or None,
            "mutation": case.get("label"), "real_parser_answer": obs}


def shrink(case):
    cfg = case["cfg"]
    sub = case["parser"].get("sub")
    for path, _ in list(all_keys(cfg)):
        # stay inside the modelled space and do not drift into the listed finding classes: keep class_path (a class value
        # without it is not modelled), keep init_args (class 3), keep the subcommand dest (class 2), never leave an empty
        # mapping behind (class 1)
        if path[-1] in ("class_path", "init_args") or (sub and len(path) == 1 and path[0] == sub["dest"]):
            continue
        try:
            parent = at(cfg, path[:-1])
            if isinstance(parent, dict) and len(parent) == 1 and len(path) > 1:
                continue
            c = remove(cfg, path, False)
        except (KeyError, IndexError, TypeError):
            continue
        yield dict(case, cfg=c)
    for ch in (CHANNELS if case.get("defaults", True) else NODEF_CHANNELS):
        if ch != case["channel"]:
            yield dict(case, channel=ch)
            break


def search(rng, tier, broken):
    """bounded failing-input search after a broken proof / tie: one extra quick-size batch (at most 1500 cases) with a fresh
    stream; returns the first case that contradicts the property inside the guard or in an unlisted class"""
    from tie import framework as F

    cases = generate(rng, "quick")[:1500]
    obs = observe(cases)
    bm, bi, bo = F.judge_cases(sys.modules[__name__], cases, obs, tag="x")
    known = F.load_known_findings(PROP)
    bad = sorted(set(bi) | {i for i, k in bo if FINDING_CLASSES.get(k) not in known})
    if not bad:
        return None
    i = bad[0]
    return {"case": cases[i], "observed": obs[i], "explain": describe(cases[i], obs[i])}


META = {
    "level_text": "Theorems in coq/Properties/C06.v, for ALL declaration trees, ALL configuration trees, all three hand-over modes "
                  "(defaults merged / parse_object without defaults / parse_string without defaults) and any fuel of the model "
                  "(Model/C06Validate.v: the lenient _apply_actions pre-pass, subcommand selection, check_values with depth-sorted keys, "
                  "branch-key escape and the group/subcommand error variants, check_required with the recursion into the selected "
                  "subcommand, and the nested per-class parsers for List[dataclass] items and init_args): "
                  "(1) C06_accepted_has_no_undeclared_key: an accepted configuration has no undeclared key at any nesting level (top "
                  "level, dotted groups, dataclass fields, init_args of a class, list items, section of the subcommand in force), "
                  "INCLUDING keys that hold a mapping without any leaf and keys beside class_path in a class value (both were guard "
                  "classes until round 6: the library repaired them in a58b0fc / 56814dd, the model now contains the empty-mapping "
                  "refusal of the _apply_actions pre-pass and the is_subclass_spec refusal, and the theorem is proved without those "
                  "guards); the single exception left is a key in the section of a subcommand that is not in force (open finding, "
                  "class 2); guarded form C06_accepted_only_if_all_keys_declared with the judge's guard_class; "
                  "C06_append_spelling_accepts_no_more: the list-append spelling '<key>+' (run_append: strict item check at merge "
                  "time, pre-pass skips the key) accepts no more than the plain spelling, so every acceptance theorem carries over; (2) C06_accepted_only_if_required_present: acceptance implies every required key of the closure (own "
                  "arguments, those of the subcommand in force, those of a kept section of another subcommand, required fields of every "
                  "list item, required parameters of the selected class, required fields of a given Optional[dataclass] parameter, recursively) is present and non-null, and C06_required_subcommand_selected: a required subcommand is selected "
                  "and declared; C06_required_present_after_rejected_links / C06_required_present_with_links: the same for parsers whose "
                  "construction included link_arguments attempts (a rejected attempt leaves every required key enforced; an accepted "
                  "link exempts exactly its target); (3) C06_unknown_key_error_only_if_undeclared: an unknown-key error is raised only when the configuration does "
                  "contain an undeclared key; (4) one _refuted witness (kernel-evaluated) for the open finding and two Examples showing the "
                  "repaired ones rejected with the key named. "
                  "That the key NAMED by the error is the offending one is NOT a theorem: it is checked per case by the correspondence (the key "
                  "extracted from the real ArgumentError must be a suffix of an undeclared / missing key path of the reference semantics, "
                  "judged inside Coq), as are the agreement of the four channels and the refusal of parse_known_args for external callers.",
    "level_note": "Trusted: Coq kernel/VM; faithfulness of the hand-written model outside the generated cases (tied by per-case agreement "
                  "on accept/reject, error family and named key); the harness that builds the real parser from the declaration tree and "
                  "extracts the named key with one regex per message family. Hypothesis wf_parser (subcommand names / dest are not also "
                  "argument names of the parent) is checked per case. Not modelled: individual argv options and environment variables "
                  "(the configuration travels whole: object, config string, --cfg, APP_CFG), nested subcommands, dict_kwargs, positionals, "
                  "value errors other than shape mismatches, a top-level key named like an argument of a subcommand (cross-talk through "
                  "ActionTypeHint prev_val, see notes/C06.md).",
    "technique": "Rocq proof (induction on nesting fuel and nested induction on the configuration tree; first-failure / event-list "
                 "invariants) + correspondence run judged in Coq",
}

"""C12 — auto_cli calls the component with exactly the parsed values.
Generated programs (real Python modules) x generated command lines -> jsonargparse.auto_cli ->
the callee's own record of its arguments, judged inside Coq against Model/C12Cli.v and Spec/C12CliSpec.v."""
import json

import importlib.util
import os

from tie.framework import g_Z, g_bool, g_list, g_nat, g_opt, g_pair, g_str, run_impl_parallel

PROP = "C12"
_spec = importlib.util.spec_from_file_location("c12_program", os.path.join(os.path.dirname(os.path.dirname(os.path.abspath(__file__))), "impl", "c12_program.py"))
_mod = importlib.util.module_from_spec(_spec)
_spec.loader.exec_module(_mod)
_program_src = _mod.program_src
IMPORTS = "From JV Require Import Lib.Base Lib.C12Syntax Model.C12Cli Spec.C12CliSpec Corr.C12Judge."
RULE = ("seeded random programs: a function (15% `async def`), a class with 0-3 methods (instance, static, class or coroutine methods; a method "
        "without parameters may be a public @property), a list of 1-4 functions/classes (35% of the lists are NOT passed: auto_cli(args=...) is "
        "called from the module that defines exactly these components), or a nested "
        "dict (depth <=3, optional _help entries) of them; signatures of 0-6 parameters over int/str/bool/List[int]/"
        "Optional[int]/Optional[str]/Optional[List[int]]/the dataclass Point/Optional[Point] (values given whole: one JSON argv "
        "value, --k.x/--k.y, or a config section), with/without default (incl. `= None` on a non-Optional type), positional-or-keyword "
        "keyword-only and (5% of the signatures) positional-only (`/`), private (_x) names, names that are attributes of jsonargparse.Namespace (items, keys, values, get, "
        "pop, update, clone, as_dict), str defaults that a YAML reader would not leave a string (null, ~, 5, true, '', 1e3), "
        "names shared between constructor and methods, and (rarely) the names config/subcommand/help/print_config "
        "(subcommand also as constructor parameter of a class without methods); as_positional True and False. Per program 8 command lines: values given "
        "by option, positionally, by --config (inline JSON or file, at the level itself or as a section of an enclosing "
        "level, the section of one subcommand also split over two --config options), the empty string and the texts null / ~ / Null / NULL as values of a parameter declared str (not Optional), null as a wrong value for non-Optional int/bool/List, repeated (last wins) or omitted, in shuffled order, plus ~20% invalid lines (unknown option/key, wrong "
        "type, missing required, extra word, unknown/missing subcommand, --config where the level has none, a value for a private parameter that has a default). "
        "History: all programs of a runner process are imported in sequence under the same module name (same module.qualname "
        "for different classes / functions). Non-trivial = the call happened with at least one parameter bound to a given value; distinct = distinct "
        "(program, command line).")
HISTORY = ("each of the 16 runner processes executes its ~150 (quick) / ~2500 (thorough) programs one after the other under ONE "
           "module name, so successive classes and functions share module.qualname while their methods and signatures differ: "
           "whatever auto_cli remembers from an earlier call must not leak into a later one")
TRUSTED = [
    "Coq 8.16.1 kernel + vm_compute",
    "tie/impl/c12_cli.py (generated module source, the callee's record of its arguments, classification of exits) and the Gallina printer",
    "hand-written model coq/Model/C12Cli.v, tied by per-case agreement evaluated inside Coq",
    "argparse's tokenisation of argv (option/value pairs, bare words in order, subcommand takes the rest); CPython keyword call binding; inspect.signature",
]
ASSUMPTIONS = [
    "the model starts from the signature: inspect.signature/docstring/stub resolution is not modelled",
    "text/JSON -> value conversion is a parameter of the model and the theorems (conv); the run uses canonical texts only "
    "(decimal ints, letter-only strings, true/false, null, [..] lists), and null only for Optional types",
    "option names are never proper prefixes of other option names (argparse abbreviation matching is not modelled; on "
    "Python 3.12.1 an abbreviation that is ambiguous in the PARENT parser even breaks subcommand options)",
    "argparse takes an UNKNOWN option whose text contains a space (`--k=[1, 2]`) for a positional value: such words are not "
    "generated as invalid options (tokenisation is argparse's business)",
    "null is given to a non-Optional parameter only as a word on argv (rejected for int/bool/List, the string for str); a JSON "
    "null inside a --config is 'not set' for jsonargparse and is handed to the callee as None without validation against "
    "the declared type (observed: def f(a: int = 0), --config={\"a\": null} -> f(a=None)); what a value means for a type "
    "is C02/C05's subject and such documents are not generated here",
    "the only dataclass is Point(x: int = 0, y: int = 0); a dataclass value is always given whole (both fields: as one JSON "
    "argv value, as --k.x/--k.y side by side, or as a config section), because partial assignments merge field-wise; a "
    "wrong-typed scalar for a dataclass group is generated on argv only (inside a --config it is validated lazily, C02)",
    "coroutine functions / methods and public properties are, like static and class methods, below the model: it starts from "
    "the subcommand's signature (a property = a subcommand without parameters); that the coroutine is run and the property "
    "read once on the one instance is observed by the generated callee's own record",
    "components not passed (auto_cli() from the defining module) are the list of the module's functions / classes in "
    "definition order for the model; the frame / module lookup is exercised, not modelled",
    "instance, static and class methods are the same subcommand for the model (it starts from the subcommand's signature); "
    "which receiver the callee gets is observed by the generated callee itself",
    "the subcommand is always chosen on the command line; a level whose subcommand is named by the config (`subcommand` key or "
    "inferred from the sections) and --config sections for siblings of the chosen subcommand are property C17's subject "
    "(selection and pruning of sibling sections at every nesting level) and are not generated here",
    "not generated (model answers EUnmodelled): constructor parameter named subcommand of a class with methods, or named like a method, subcommand named "
    "config, --config sections for a subcommand other than the chosen one, subcommand chosen by the config (C17)",
]
EXHAUSTIVE = {"quick": False, "thorough": False}
# classes 1-5, 7 belonged to the three findings repaired in /repo (5bbebb1, 2f69862, 4bb4764)
FINDING_CLASSES = {6: "nullish-str-default", 9: "positional-only-param"}

PARAM_NAMES = ["alpha", "beta", "gamma", "delta", "eps", "zeta", "theta", "iota", "kappa", "lam", "mu", "nu", "xi",
               "rho", "sigma", "tau", "ups", "phi", "chi", "psi", "omega", "_hid", "_priv",
               # names that are also attributes of jsonargparse.Namespace (stored under a clash mark)
               "items", "keys", "values", "get", "pop", "update", "clone", "as_dict"]
FN_NAMES = ["run", "fit", "go", "build", "evalx", "load", "dump", "step", "plan", "scan", "push", "pull", "mark",
            "tidy", "sync", "wipe", "make", "send", "init", "stop"]
CLS_NAMES = ["Tool", "Model", "Data", "Job", "Task", "Unit", "Node", "Pipe"]
METH_NAMES = ["train", "test", "show", "apply", "reset", "walk"]
GRP_KEYS = ["grp", "sub", "more", "misc"]
WORDS = ["foo", "bar", "baz", "qux", "spam", "eggs", "abc", "xyzzy"]
TYPES = ["int", "str", "bool", "list", ["opt", "int"], ["opt", "str"], ["opt", "list"],
         # the dataclass Point(x: int = 0, y: int = 0): a value that only exists after instantiate_classes
         "data", ["opt", "data"]]
# str DEFAULTS also take texts that a YAML reader would not leave a string (given values stay in WORDS: what a
# text means for a type is the business of C02/C05, what a default means is C12's)
DEFAULT_WORDS = WORDS + ["null", "~", "NULL", "5", "true", "", "1e3"]


# ------------------------------------------------------------------------------------------------
# generation of programs
# ------------------------------------------------------------------------------------------------
def base_ty(t):
    return t[1] if isinstance(t, list) else t


NULL_WORDS = ["null", "~", "Null", "NULL"]


def gen_value(rng, t, allow_none=True, given=False):
    opt = isinstance(t, list)
    if isinstance(t, list):
        if allow_none and rng.random() < 0.3:
            return None
        t = t[1]
    if t == "str" and given and not opt and rng.random() < 0.15:
        # for a parameter DECLARED str (not Optional) the text null / ~ is a string like any other, whatever its default
        # (for Optional[str] the same text means None: what a text means for a type is C02/C05's business)
        return rng.choice(NULL_WORDS)
    if t == "int":
        return rng.randint(-5, 20)
    if t == "str":
        # the empty string is a value like any other ('' on argv, "k": "" in a config)
        return "" if rng.random() < 0.1 else rng.choice(WORDS)
    if t == "bool":
        return rng.random() < 0.5
    if t == "data":
        return {"x": rng.randint(-3, 9), "y": rng.randint(-3, 9)}
    return [rng.randint(0, 9) for _ in range(rng.randint(0, 3))]


def gen_sig(rng, reserved_ok, maxn=6, pool=None):
    n = rng.choice([0, 1, 1, 2, 2, 3, 3, 4, 5, 6][: maxn + 4])
    names = rng.sample(pool or PARAM_NAMES, n)
    if reserved_ok and n and rng.random() < 0.04:
        names[rng.randrange(n)] = rng.choice(["subcommand"] * 5 + ["config"] * 4 + ["help", "print_config"])
    hidden = None
    if n and rng.random() < 0.12 and not {"_hid", "_priv"} & set(names):
        # a private parameter that (mostly) has a default: it is NOT offered, a value given for it must be rejected
        hidden = rng.randrange(n)
        names[hidden] = rng.choice(["_hid", "_priv"])
    n_pk = rng.randint(0, n)
    params = []
    for i, nm in enumerate(names):
        t = rng.choice(TYPES)
        has_def = rng.random() < (0.8 if i == hidden else 0.5)
        d = None
        if has_def:
            if not isinstance(t, list) and rng.random() < 0.15:
                d = {"v": None}            # x: int = None
            else:
                d = {"v": gen_value(rng, t)}
                if isinstance(d["v"], str) and rng.random() < 0.25:
                    d = {"v": rng.choice(DEFAULT_WORDS)}
        params.append({"n": nm, "kind": "pk" if i < n_pk else "ko", "ty": t, "d": d})
    # Python: positional-or-keyword parameters without default come first
    pk = [p for p in params if p["kind"] == "pk"]
    ko = [p for p in params if p["kind"] == "ko"]
    pk.sort(key=lambda p: p["d"] is not None)
    if pk and rng.random() < 0.05:
        # `def f(a, b, /, c)`: the first parameters are positional-only (open finding positional-only-param: every value
        # is passed by keyword, so the call fails as soon as one of them is offered on the command line)
        for p in pk[: rng.randint(1, len(pk))]:
            p["kind"] = "po"
    return pk + ko


def gen_fn(rng, names):
    f = {"k": "fn", "name": names.pop(), "sig": gen_sig(rng, True)}
    if rng.random() < 0.15:
        f["async"] = True          # `async def`: auto_cli runs the coroutine (asyncio.run) and returns its value
    return f


def gen_cls(rng, names, mnames=None):
    init = gen_sig(rng, rng.random() < 0.3, maxn=4)
    nm = rng.choice([0, 1, 1, 2, 2, 3])
    if nm:      # with methods "subcommand" is the subcommands dest: every line is rejected (not modelled)
        init = [p for p in init if p["n"] != "subcommand"]
    meths = []
    used = {p["n"] for p in init}
    for m in sorted(rng.sample(METH_NAMES, nm)):
        # share names between constructor and methods on purpose
        pool = PARAM_NAMES if rng.random() < 0.5 or not used else sorted(used - {"config", "help", "print_config"}) + rng.sample(PARAM_NAMES, 4)
        pool = list(dict.fromkeys(pool))
        s = gen_sig(rng, True, maxn=4, pool=pool)
        meths.append([m, s])
    # a public method may also be a @staticmethod, a @classmethod or a coroutine method (same signature on the
    # command line); a public @property is a subcommand without parameters whose value is returned
    for ms in meths:
        if rng.random() < 0.12:
            ms[1] = []
    mkinds = {m: rng.choice(["static", "class", "async"]) for m, _ in meths if rng.random() < 0.45}
    for m, s in meths:
        if not s and rng.random() < 0.6:
            mkinds[m] = "prop"
    return {"k": "cls", "name": names.pop(), "init": init, "meths": meths, "mkinds": mkinds}


def gen_leaf(rng, fn_names, cls_names):
    if cls_names and rng.random() < 0.3:
        return gen_cls(rng, cls_names)
    return gen_fn(rng, fn_names)


def gen_grp_kids(rng, fn_names, cls_names, depth):
    kids = []
    keys = rng.sample(GRP_KEYS, len(GRP_KEYS))
    for _ in range(rng.randint(1, 3)):
        if depth < 2 and keys and rng.random() < 0.35:
            kids.append([keys.pop(), {"k": "grp", "kids": gen_grp_kids(rng, fn_names, cls_names, depth + 1)}])
        elif fn_names:
            c = gen_leaf(rng, fn_names, cls_names)
            key = c["name"] if rng.random() < 0.6 else "k" + c["name"].lower()
            kids.append([key, c])
    if not kids:
        c = gen_fn(rng, fn_names)
        kids.append([c["name"], c])
    if depth > 0 and rng.random() < 0.4:
        kids.insert(rng.randint(0, len(kids)), ["_help", {"k": "help"}])
    return kids


def gen_components(rng):
    fn_names = rng.sample(FN_NAMES, len(FN_NAMES))
    cls_names = rng.sample(CLS_NAMES, len(CLS_NAMES))
    r = rng.random()
    if r < 0.30:
        return {"form": "one", "c": gen_fn(rng, fn_names)}
    if r < 0.55:
        return {"form": "one", "c": gen_cls(rng, cls_names)}
    if r < 0.72:
        cs = {"form": "list", "cs": [gen_leaf(rng, fn_names, cls_names) for _ in range(rng.choice([1, 2, 2, 3, 4]))]}
        if rng.random() < 0.35:
            # the list is not passed: auto_cli(args=...) is called from the module that defines exactly these components
            cs["implicit"] = True
        return cs
    return {"form": "dict", "kids": gen_grp_kids(rng, fn_names, cls_names, 0)}


# ------------------------------------------------------------------------------------------------
# the view of a program the generator of command lines needs (python mirror of the *spec's* words,
# used only to aim the inputs; verdicts never come from here)
# ------------------------------------------------------------------------------------------------
def p_required(p):
    # (a dataclass-typed parameter is a group of options, all fields of Point have defaults)
    return p["d"] is None and not isinstance(p["ty"], list) and p["ty"] != "data"


def p_offered(p):
    # the spec's sp_offered: everything except private parameters that have a default in the signature
    return p["d"] is None or not p["n"].startswith("_")


def p_ty(p):
    if p["d"] is not None and p["d"]["v"] is None and not isinstance(p["ty"], list):
        return ["opt", p["ty"]]
    return p["ty"]


def level_of(c):
    if c["k"] == "fn":
        return {"sig": c["sig"], "subs": None}
    if c["k"] == "cls":
        subs = {m: {"sig": s, "subs": None, "own_config_param": any(p["n"] == "config" for p in s)} for m, s in c["meths"]} or None
        return {"sig": c["init"], "subs": subs}
    if c["k"] == "grp":
        return {"sig": [], "subs": {k: level_of(kid) for k, kid in c["kids"] if k != "_help"}}


def top_level(comps):
    if comps["form"] == "one":
        return level_of(comps["c"])
    if comps["form"] == "list":
        if len(comps["cs"]) == 1:
            return level_of(comps["cs"][0])
        return {"sig": [], "subs": {c["name"]: level_of(c) for c in comps["cs"]}}
    return {"sig": [], "subs": {k: level_of(kid) for k, kid in comps["kids"] if k != "_help"}}


NULL = {"null": True}      # marker: the wrong value is null (written None into the token once chosen)


def bad_value(rng, t):
    # null is a wrong value for every type that is not Optional (whatever the parameter's default is)
    nul = [] if isinstance(t, list) else [NULL]
    t = base_ty(t)
    if t == "int":
        return rng.choice(["abc", [1], True] + nul)
    if t == "bool":
        return rng.choice(["abc", 7, [1]] + nul)
    if t == "list":
        return rng.choice(["abc", 3] + nul)
    if t == "data":
        return rng.choice(["abc", 3])
    return None


def gen_line(rng, comps, as_pos, invalid):
    """One command line for the program: list of tokens."""
    lv = top_level(comps)
    toks = []
    handed = []          # [(key, value)] a parent passes down for the next level through a config section
    mutation = rng.choice(["unknown_opt", "bad_value", "missing_required", "extra_word", "bad_sub", "no_sub",
                           "unknown_key", "cfg_nowhere", "opt_for_positional", "private_given", "private_given"]) if invalid else None
    mutated = False
    depth = 0
    while True:
        sig = [p for p in lv["sig"] if p_offered(p)]
        positional = [p for p in sig if p_required(p) and as_pos]
        options = [p for p in sig if not (p_required(p) and as_pos)]
        has_subs = lv["subs"] is not None
        level_toks = []      # tokens whose relative order may be shuffled
        pos_toks = []
        cfg_doc = []
        # positionals: all given in order; below a level with subcommands there is no choice
        give_pos = len(positional)
        if not has_subs and positional and rng.random() < 0.25:
            give_pos = rng.randint(0, len(positional))
        for i, p in enumerate(positional):
            if i < give_pos:
                pos_toks.append(["pos", gen_value(rng, p_ty(p), allow_none=False, given=True)])
                if rng.random() < 0.15:
                    cfg_doc.append([p["n"], {"leaf": gen_value(rng, p_ty(p), allow_none=False, given=True)}])
            else:
                if mutation == "missing_required" and not mutated:
                    mutated = True
                    continue
                cfg_doc.append([p["n"], {"leaf": gen_value(rng, p_ty(p), allow_none=False, given=True)}])
        for p in options:
            req = p_required(p)
            r = rng.random()
            if req and mutation == "missing_required" and not mutated:
                mutated = True
                continue
            if req or r < 0.55:
                how = rng.random()
                v = gen_value(rng, p_ty(p), allow_none=not req, given=True)
                if how < 0.6:
                    level_toks.append(["opt", p["n"], v])
                    if rng.random() < 0.2:
                        level_toks.append(["opt", p["n"], gen_value(rng, p_ty(p), allow_none=not req, given=True)])
                else:
                    cfg_doc.append([p["n"], {"leaf": v}])
                    if rng.random() < 0.25:
                        level_toks.append(["opt", p["n"], gen_value(rng, p_ty(p), allow_none=not req, given=True)])
        if mutation == "bad_value" and not mutated:
            cands = [p for p in sig if bad_value(rng, p_ty(p)) is not None]
            if cands:
                p = rng.choice(cands)
                mutated = True
                bv = bad_value(rng, p_ty(p))
                isnull = bv is NULL
                on_argv = p in positional and give_pos > positional.index(p)
                while isnull and p in positional and not on_argv:
                    # null as a wrong value only on argv: inside a --config a JSON null is "not set" and is not
                    # validated against the type (what a value means for a type: C02), see ASSUMPTIONS
                    bv = bad_value(rng, p_ty(p))
                    isnull = bv is NULL
                bv = None if isnull else bv
                if on_argv:
                    pos_toks[positional.index(p)] = ["pos", bv]
                elif p in positional or (not isnull and rng.random() < 0.4 and base_ty(p_ty(p)) != "data"):
                    # (not for a dataclass group: a scalar for the group inside a --config is only validated at the
                    # end of parsing, so a later valid assignment rescues the line - C02's business, see ASSUMPTIONS)
                    cfg_doc.append([p["n"], {"leaf": bv}])
                else:
                    level_toks.append(["opt", p["n"], bv])
        if mutation == "unknown_opt" and not mutated and rng.random() < 0.6:
            mutated = True
            # a name that is NOT an option of this level (`_hid` only while it is a private parameter left to its default)
            level_toks.append(["opt", rng.choice([n for n in ["zzz", "_hid", "nope"] if n not in {q["n"] for q in sig}]), 1])
        # (not for List[int]: argparse takes an unknown `--k=[1, 2]` - a word with spaces - for a positional value)
        if mutation == "opt_for_positional" and not mutated and [q for q in positional if base_ty(p_ty(q)) != "list"]:
            mutated = True
            p = rng.choice([q for q in positional if base_ty(p_ty(q)) != "list"])
            level_toks.append(["opt", p["n"], gen_value(rng, p_ty(p), allow_none=False, given=True)])
        not_offered = [p for p in lv["sig"] if not p_offered(p)]
        if mutation == "private_given" and not mutated and not_offered:
            # a value for a private parameter that has a default (by option or by config key): no such option / key
            mutated = True
            p = rng.choice(not_offered)
            v = gen_value(rng, p_ty(p), allow_none=False)
            if rng.random() < 0.6:
                level_toks.append(["opt", p["n"], v])
            else:
                cfg_doc.append([p["n"], {"leaf": v}])
        if mutation == "unknown_key" and not mutated and rng.random() < 0.6:
            mutated = True
            cfg_doc.append([rng.choice(["zzz", "nope"]), {"leaf": 1}])
        # decide where this level's config assignments go: own --config, or the parent's section
        own_cfg = []
        if cfg_doc:
            if depth > 0 and (rng.random() < 0.4 or lv.get("own_config_param")):
                handed_up = cfg_doc
            else:
                handed_up = []
                own_cfg = cfg_doc
        else:
            handed_up = []
        # choose the subcommand
        chosen = None
        if has_subs:
            chosen = rng.choice(sorted(lv["subs"]))
        yield_level = {"own_cfg": own_cfg, "handed_up": handed_up, "level_toks": level_toks, "pos_toks": pos_toks,
                       "chosen": chosen, "own_config_param": bool(lv.get("own_config_param"))}
        handed.append(yield_level)
        if not has_subs:
            break
        lv = lv["subs"][chosen]
        depth += 1
    if mutation == "no_sub":
        # the line stops before the first subcommand: deeper levels say nothing (a section for them would select, C17)
        first = next((i for i, h in enumerate(handed) if h["chosen"] is not None), None)
        if first is not None:
            handed = handed[: first + 1]
    # assemble: sections handed up are nested into the parent's own config (creating one if needed)
    for i in range(len(handed) - 1, 0, -1):
        h = handed[i]
        if h["handed_up"]:
            parent = handed[i - 1]
            sec = [parent["chosen"], {"sec": h["handed_up"]}]
            if parent["own_cfg"] or i - 1 == 0 or rng.random() < 0.5:
                parent["own_cfg"] = parent["own_cfg"] + [sec]
            else:
                parent["handed_up"] = parent["handed_up"] + [sec]
    if handed[0]["handed_up"]:
        handed[0]["own_cfg"] = handed[0]["own_cfg"] + handed[0]["handed_up"]
    for i, h in enumerate(handed):
        items = list(h["level_toks"])
        if h["own_cfg"]:
            doc = h["own_cfg"]
            secs = [e for e in doc if "sec" in e[1] and e[1]["sec"]]
            if secs and rng.random() < 0.4:
                # two --config options that BOTH carry a section for the same subcommand: what the first one sets
                # and the second one leaves out must survive (one of the two sections may even be empty)
                e = rng.choice(secs)
                sub = e[1]["sec"]
                k = rng.randint(0, len(sub))
                rest = [x for x in doc if x is not e]
                j = rng.randint(0, len(rest))
                items.append(["cfg", rest[:j] + [[e[0], {"sec": sub[:k]}]]])
                items.append(["cfg", [[e[0], {"sec": sub[k:]}]] + rest[j:]])
            elif len(doc) > 1 and rng.random() < 0.3:
                k = rng.randint(1, len(doc) - 1)
                items.append(["cfg", doc[:k]])
                items.append(["cfg", doc[k:]])
            else:
                items.append(["cfg", doc])
        rng.shuffle(items)
        # interleave the positional words, keeping their order
        for pt in h["pos_toks"]:
            items.insert(rng.randint(0, len(items)), None)
        it = iter(h["pos_toks"])
        # positions of None must be filled left to right
        items = [next(it) if x is None else x for x in items]
        if mutation == "extra_word" and not mutated and h["chosen"] is None:
            mutated = True
            items.append(["pos", "foo"])
        if mutation == "cfg_nowhere" and not mutated and h["chosen"] is None and not h["own_cfg"] and not h["own_config_param"]:
            mutated = True
            items.append(["cfg", []])
        toks += items
        if h["chosen"] is not None:
            if mutation == "bad_sub" and not mutated:
                mutated = True
                toks.append(["pos", "nosuch"])
            elif mutation == "no_sub" and not mutated:
                mutated = True
                break
            else:
                toks.append(["pos", h["chosen"]])
    return toks


def fixed_cases():
    """The reproduced findings and a few shapes worth having in every run."""
    I = lambda n, d=None, ty="int", kind="pk": {"n": n, "kind": kind, "ty": ty, "d": None if d is None else {"v": d}}
    out = []
    f = {"k": "fn", "name": "run", "sig": [I("subcommand", 1)]}
    out.append({"as_pos": True, "components": {"form": "one", "c": f}, "toks": [["opt", "subcommand", 5]]})
    out.append({"as_pos": True, "components": {"form": "one", "c": f}, "toks": []})
    f3 = {"k": "fn", "name": "run", "sig": [I("subcommand")]}
    out.append({"as_pos": True, "components": {"form": "one", "c": f3}, "toks": [["pos", 5]]})
    c = {"k": "cls", "name": "Tool", "init": [I("alpha", 1)], "meths": [["train", [I("config", 3), I("subcommand", 4)]]]}
    out.append({"as_pos": True, "components": {"form": "one", "c": c},
                "toks": [["pos", "train"], ["opt", "config", 7], ["opt", "subcommand", 8]]})
    c2 = {"k": "cls", "name": "Tool", "init": [I("alpha", 1)], "meths": [["train", [I("config")]]]}
    out.append({"as_pos": True, "components": {"form": "one", "c": c2}, "toks": [["pos", "train"], ["pos", 7]]})
    g = {"k": "fn", "name": "fit", "sig": [I("kappa", 1), I("subcommand", 2)]}
    h = {"k": "fn", "name": "go", "sig": []}
    out.append({"as_pos": True, "components": {"form": "list", "cs": [g, h]},
                "toks": [["pos", "fit"], ["opt", "kappa", 4], ["opt", "subcommand", 9]]})
    out.append({"as_pos": True, "components": {"form": "list", "cs": [g, h]}, "toks": [["pos", "go"], ["cfg", []]]})
    fc = {"k": "fn", "name": "run", "sig": [I("config", 1)]}
    out.append({"as_pos": True, "components": {"form": "one", "c": fc}, "toks": []})
    out.append({"as_pos": True, "components": {"form": "dict", "kids": [["_help", {"k": "help"}], ["run", h]]}, "toks": [["pos", "run"]]})
    out.append({"as_pos": True, "components": {"form": "dict", "kids": [["subcommand", h], ["run", h]]}, "toks": [["pos", "run"]]})
    out.append({"as_pos": True, "components": {"form": "list", "cs": []}, "toks": []})
    # class: same parameter name in constructor and method, config handing values down two levels
    c3 = {"k": "cls", "name": "Job", "init": [I("alpha"), I("beta", "x", "str")],
          "meths": [["apply", [I("alpha"), I("beta", 2, kind="ko")]], ["reset", []]]}
    out.append({"as_pos": True, "components": {"form": "list", "cs": [c3, h]},
                "toks": [["cfg", [["Job", {"sec": [["alpha", {"leaf": 3}], ["beta", {"leaf": "u"}], ["apply", {"sec": [["alpha", {"leaf": 4}]]}]]}]]],
                         ["pos", "Job"], ["pos", 9], ["pos", "apply"], ["pos", 8], ["opt", "beta", 5]]})
    out.append({"as_pos": False, "components": {"form": "one", "c": c3},
                "toks": [["opt", "alpha", 1], ["pos", "apply"], ["opt", "alpha", 2]]})
    # parameter names that are Namespace attributes; Optional of a generic without default
    k = {"k": "fn", "name": "load", "sig": [I("items", None, "list"), I("values", 3), I("keys", "q", "str", "ko"), I("get", None, ["opt", "list"], "ko")]}
    out.append({"as_pos": True, "components": {"form": "one", "c": k}, "toks": [["pos", [1]], ["opt", "keys", "foo"], ["opt", "get", [4]]]})
    out.append({"as_pos": True, "components": {"form": "one", "c": k}, "toks": [["cfg", [["items", {"leaf": [2]}], ["values", {"leaf": 9}]]]]})
    c4 = {"k": "cls", "name": "Unit", "init": [I("update", False, "bool"), I("get", 1)], "meths": [["apply", [I("pop"), I("clone", "no", "str")]]]}
    out.append({"as_pos": True, "components": {"form": "one", "c": c4},
                "toks": [["opt", "update", True], ["opt", "get", 5], ["pos", "apply"], ["pos", 9], ["opt", "clone", "bar"]]})
    out.append({"as_pos": True, "components": {"form": "one", "c": c4}, "toks": [["cfg", [["get", {"leaf": 2}], ["apply", {"sec": [["pop", {"leaf": 1}]]}]]], ["pos", "apply"]]})
    # open findings: a methodless class with a `subcommand` parameter; an Optional[str] default that reads as null
    c5 = {"k": "cls", "name": "Tool", "init": [I("subcommand", 1)], "meths": []}
    out.append({"as_pos": True, "components": {"form": "one", "c": c5}, "toks": [["opt", "subcommand", 5]]})
    out.append({"as_pos": True, "components": {"form": "one", "c": c5}, "toks": [["opt", "subcommand", 0]]})
    n = {"k": "fn", "name": "run", "sig": [I("alpha", "null", ["opt", "str"])]}
    out.append({"as_pos": True, "components": {"form": "one", "c": n}, "toks": []})
    out.append({"as_pos": True, "components": {"form": "one", "c": n}, "toks": [["opt", "alpha", "foo"]]})
    # the empty string for a required str parameter: positionally, by config, for a method
    e1 = {"k": "fn", "name": "send", "sig": [I("alpha", None, "str"), I("beta", None, "str", "ko")]}
    out.append({"as_pos": True, "components": {"form": "one", "c": e1}, "toks": [["pos", ""], ["cfg", [["beta", {"leaf": ""}]]]]})
    out.append({"as_pos": False, "components": {"form": "one", "c": e1}, "toks": [["opt", "alpha", ""], ["opt", "beta", "foo"]]})
    # two --config options above the subcommand, both with a section for it; the second leaves out what the first set
    b1 = {"k": "cls", "name": "Pipe", "init": [I("alpha", 1)], "meths": [["apply", [I("beta", "all", "str"), I("gamma", 1)]], ["reset", []]]}
    out.append({"as_pos": True, "components": {"form": "one", "c": b1},
                "toks": [["cfg", [["apply", {"sec": [["beta", {"leaf": "foo"}], ["gamma", {"leaf": 4}]]}]]],
                         ["cfg", [["alpha", {"leaf": 2}], ["apply", {"sec": [["gamma", {"leaf": 5}]]}]]], ["pos", "apply"]]})
    b2 = {"k": "fn", "name": "build", "sig": [I("beta", "all", "str"), I("gamma", 1)]}
    out.append({"as_pos": True, "components": {"form": "list", "cs": [b2, h]},
                "toks": [["cfg", [["build", {"sec": [["beta", {"leaf": "foo"}], ["gamma", {"leaf": 4}]]}]]],
                         ["cfg", [["build", {"sec": []}]]], ["pos", "build"]], "cfg_via": "file"})
    # dataclass-typed parameters (values exist only after instantiate_classes) in multi-component layouts
    P = lambda x, y: {"x": x, "y": y}
    mv = {"k": "fn", "name": "push", "sig": [I("tau", None, "data"), I("nu", 1)]}
    pt = {"k": "fn", "name": "pull", "sig": [I("phi", None, ["opt", "data"]), I("chi", P(1, 1), "data", "ko")]}
    rb = {"k": "cls", "name": "Node", "init": [I("rho", None, "data")], "meths": [["walk", [I("xi", P(1, 1), "data"), I("psi", None, ["opt", "data"], "ko")]]]}
    out.append({"as_pos": True, "components": {"form": "list", "cs": [mv, pt]}, "toks": [["pos", "push"], ["opt", "tau", P(1, 2)]]})
    out.append({"as_pos": True, "components": {"form": "list", "cs": [mv, pt]}, "toks": [["pos", "push"], ["opt", "tau", P(3, 4)]], "data_nested": True})
    out.append({"as_pos": True, "components": {"form": "list", "cs": [mv, pt]}, "toks": [["pos", "pull"]]})
    out.append({"as_pos": True, "components": {"form": "list", "cs": [mv, pt]},
                "toks": [["cfg", [["pull", {"sec": [["phi", {"leaf": P(5, 6)}]]}]]], ["pos", "pull"], ["opt", "chi", P(7, 8)]]})
    out.append({"as_pos": True, "components": {"form": "dict", "kids": [["grp", {"k": "grp", "kids": [["Node", rb], ["push", mv]]}]]},
                "toks": [["pos", "grp"], ["pos", "Node"], ["opt", "rho", P(1, 2)], ["pos", "walk"], ["opt", "psi", P(0, 3)]], "data_nested": True})
    out.append({"as_pos": True, "components": {"form": "one", "c": rb}, "toks": [["cfg", [["rho", {"leaf": P(2, 2)}], ["walk", {"sec": [["xi", {"leaf": P(4, 4)}]]}]]], ["pos", "walk"]]})
    out.append({"as_pos": True, "components": {"form": "one", "c": pt}, "toks": [["opt", "phi", P(1, 1)], ["opt", "phi", None]]})
    # a class without constructor parameters among several components: its subparser keeps --config because of its methods
    nc = {"k": "cls", "name": "Task", "init": [], "meths": [["apply", [I("alpha"), I("beta", 2)]], ["reset", []]]}
    nn = {"k": "cls", "name": "Unit", "init": [], "meths": [["reset", []]]}
    out.append({"as_pos": True, "components": {"form": "list", "cs": [nc, h]},
                "toks": [["pos", "Task"], ["cfg", [["apply", {"sec": [["alpha", {"leaf": 3}]]}]]], ["pos", "apply"]]})
    out.append({"as_pos": True, "components": {"form": "dict", "kids": [["grp", {"k": "grp", "kids": [["Task", nc]]}], ["go", h]]},
                "toks": [["pos", "grp"], ["pos", "Task"], ["cfg", [["apply", {"sec": [["alpha", {"leaf": 3}], ["beta", {"leaf": 4}]]}]]], ["pos", "apply"]], "cfg_via": "file"})
    out.append({"as_pos": True, "components": {"form": "list", "cs": [nn, h]}, "toks": [["pos", "Unit"], ["cfg", []], ["pos", "reset"]]})
    # static and class methods as subcommands
    sm = {"k": "cls", "name": "Pipe", "init": [I("alpha", 1)], "mkinds": {"apply": "static", "show": "class"},
          "meths": [["apply", [I("beta"), I("gamma", "q", "str")]], ["show", [I("beta"), I("delta", False, "bool", "ko")]], ["walk", [I("beta")]]]}
    out.append({"as_pos": True, "components": {"form": "one", "c": sm}, "toks": [["opt", "alpha", 2], ["pos", "apply"], ["pos", 5], ["opt", "gamma", "foo"]]})
    out.append({"as_pos": True, "components": {"form": "one", "c": sm}, "toks": [["pos", "show"], ["pos", 5], ["opt", "delta", True]]})
    out.append({"as_pos": True, "components": {"form": "list", "cs": [sm, h]}, "toks": [["cfg", [["Pipe", {"sec": [["show", {"sec": [["beta", {"leaf": 3}]]}]]}]]], ["pos", "Pipe"], ["pos", "show"]]})
    out.append({"as_pos": True, "components": {"form": "dict", "kids": [["grp", {"k": "grp", "kids": [["Pipe", sm]]}]]}, "toks": [["pos", "grp"], ["pos", "Pipe"], ["pos", "walk"], ["pos", 1]]})
    # coroutine function / coroutine method / property as the selected component
    af = {"k": "fn", "name": "sync", "sig": [I("alpha"), I("beta", "q", "str", "ko")], "async": True}
    ac = {"k": "cls", "name": "Node", "init": [I("alpha", 1)], "mkinds": {"walk": "async", "show": "prop"},
          "meths": [["show", []], ["walk", [I("beta"), I("gamma", 2)]]]}
    out.append({"as_pos": True, "components": {"form": "one", "c": af}, "toks": [["pos", 3], ["opt", "beta", "foo"]]})
    out.append({"as_pos": True, "components": {"form": "list", "cs": [af, h]}, "toks": [["cfg", [["sync", {"sec": [["alpha", {"leaf": 4}]]}]]], ["pos", "sync"]]})
    out.append({"as_pos": True, "components": {"form": "one", "c": ac}, "toks": [["opt", "alpha", 5], ["pos", "walk"], ["pos", 7]]})
    out.append({"as_pos": True, "components": {"form": "one", "c": ac}, "toks": [["opt", "alpha", 5], ["pos", "show"]]})
    out.append({"as_pos": True, "components": {"form": "one", "c": ac}, "toks": [["pos", "show"], ["cfg", []]]})
    out.append({"as_pos": True, "components": {"form": "dict", "kids": [["grp", {"k": "grp", "kids": [["Node", ac]]}]]}, "toks": [["pos", "grp"], ["pos", "Node"], ["pos", "show"]]})
    # components not passed: auto_cli() takes the functions / classes defined in the calling module (none: refused)
    out.append({"as_pos": True, "components": {"form": "list", "cs": [g, ac], "implicit": True}, "toks": [["pos", "fit"], ["opt", "kappa", 4]]})
    out.append({"as_pos": True, "components": {"form": "list", "cs": [g, ac], "implicit": True}, "toks": [["pos", "Node"], ["pos", "walk"], ["pos", 1]]})
    out.append({"as_pos": True, "components": {"form": "list", "cs": [b2], "implicit": True}, "toks": [["opt", "gamma", 4]]})
    out.append({"as_pos": True, "components": {"form": "list", "cs": [], "implicit": True}, "toks": []})
    # falsy (not None) defaults: the declared type stays what it is - null / ~ is a string for str, a wrong value for int / bool / List
    fz = {"k": "fn", "name": "send", "sig": [I("alpha", "", "str"), I("beta", 0), I("gamma", False, "bool", "ko"), I("delta", [], "list", "ko"), I("eps", "x", "str", "ko")]}
    fzc = {"k": "cls", "name": "Job", "init": [I("alpha", "", "str")], "meths": [["apply", [I("beta", "", "str"), I("gamma", 0)]]]}
    out.append({"as_pos": True, "components": {"form": "one", "c": fz}, "toks": [["opt", "alpha", "null"], ["opt", "eps", "null"]]})
    out.append({"as_pos": True, "components": {"form": "one", "c": fz}, "toks": [["opt", "alpha", "~"]], "opt_two_tokens": True})
    out.append({"as_pos": True, "components": {"form": "one", "c": fz}, "toks": [["cfg", [["alpha", {"leaf": "null"}]]]]})
    out.append({"as_pos": True, "components": {"form": "one", "c": fz}, "toks": [["opt", "beta", None]]})
    out.append({"as_pos": True, "components": {"form": "one", "c": fz}, "toks": [["opt", "gamma", None]]})
    out.append({"as_pos": True, "components": {"form": "one", "c": fz}, "toks": [["opt", "delta", None]]})
    out.append({"as_pos": True, "components": {"form": "list", "cs": [fzc, h]}, "toks": [["pos", "Job"], ["opt", "alpha", "NULL"], ["pos", "apply"], ["opt", "beta", "null"]]})
    out.append({"as_pos": True, "components": {"form": "one", "c": fzc}, "toks": [["cfg", [["apply", {"sec": [["beta", {"leaf": "Null"}]]}]]], ["pos", "apply"]]})
    # positional-only parameters (open finding positional-only-param); one left to its default is harmless
    po1 = {"k": "fn", "name": "run", "sig": [I("alpha", None, "int", "po")]}
    po2 = {"k": "fn", "name": "run", "sig": [I("_hid", 4, "int", "po"), I("alpha", None, "int", "ko")]}
    po3 = {"k": "cls", "name": "Tool", "init": [I("alpha", 1, "int", "po")], "meths": [["train", [I("beta", None, "int", "po"), I("gamma", 2)]]]}
    out.append({"as_pos": True, "components": {"form": "one", "c": po1}, "toks": [["pos", 3]]})
    out.append({"as_pos": False, "components": {"form": "one", "c": po1}, "toks": [["cfg", [["alpha", {"leaf": 3}]]]]})
    out.append({"as_pos": True, "components": {"form": "one", "c": po1}, "toks": []})
    out.append({"as_pos": True, "components": {"form": "one", "c": po2}, "toks": [["pos", 3]]})
    out.append({"as_pos": True, "components": {"form": "one", "c": po3}, "toks": [["pos", "train"], ["pos", 5]]})
    out.append({"as_pos": True, "components": {"form": "list", "cs": [po3, h]}, "toks": [["pos", "Tool"], ["opt", "alpha", 2], ["pos", "train"], ["pos", 5], ["opt", "gamma", 1]]})
    for o in out:
        o.setdefault("cfg_via", "string")
    return out


def generate(rng, tier):
    cases = fixed_cases()
    nprog = 300 if tier == "quick" else 5000
    for _ in range(nprog):
        comps = gen_components(rng)
        for _k in range(8):
            as_pos = rng.random() < 0.75
            invalid = rng.random() < 0.2
            try:
                toks = gen_line(rng, comps, as_pos, invalid)
            except Exception as e:  # generator bug: fail loudly
                raise
            cases.append({"as_pos": as_pos, "components": comps, "toks": toks,
                          "cfg_via": "file" if rng.random() < 0.3 else "string",
                          "opt_two_tokens": rng.random() < 0.2, "data_nested": rng.random() < 0.4})
    return cases


def observe(cases):
    n = 16
    chunks = [cases[i::n] for i in range(n)]
    res = run_impl_parallel("c12_cli.py", [{"cases": ch} for ch in chunks])
    out = [None] * len(cases)
    for k, r in enumerate(res):
        out[k::n] = r
    return out


# ------------------------------------------------------------------------------------------------
# Gallina printing
# ------------------------------------------------------------------------------------------------
def g_ty(t):
    if isinstance(t, list):
        return "(TOpt %s)" % g_ty(t[1])
    return {"int": "TInt", "str": "TStr", "bool": "TBool", "list": "TList", "data": "TData"}[t]


def g_val(v, pre):
    if v is None:
        return pre + ("None" if pre == "V" else "Null")
    if v is True or v is False:
        return "(%sBool %s)" % (pre, g_bool(v))
    if isinstance(v, int):
        return "(%sInt %s)" % (pre, g_Z(v))
    if isinstance(v, str):
        return "(%sStr %s)" % (pre, g_str(v))
    if isinstance(v, list) and all(isinstance(x, int) and not isinstance(x, bool) for x in v):
        return "(%sList %s)" % (pre, g_list([g_Z(x) for x in v], "Z"))
    if isinstance(v, dict) and set(v) == {"x", "y"} and all(type(x) is int for x in v.values()):
        return "(%sData %s %s)" % (pre, g_Z(v["x"]), g_Z(v["y"]))
    raise ValueError("value outside the modelled grammar: %r" % (v,))


def g_param(p):
    return "{| p_name := %s; p_kind := %s; p_ty := %s; p_default := %s |}" % (
        g_str(p["n"]), {"pk": "PosOrKw", "ko": "KwOnly", "po": "PosOnly"}[p["kind"]], g_ty(p["ty"]),
        "None" if p["d"] is None else "(Some %s)" % g_val(p["d"]["v"], "V"))


def g_sig(s):
    return g_list([g_param(p) for p in s], "param")


def g_comp(c):
    if c["k"] == "fn":
        return "(CFn %s %s)" % (g_str(c["name"]), g_sig(c["sig"]))
    if c["k"] == "cls":
        return "(CCls %s %s %s)" % (g_str(c["name"]), g_sig(c["init"]),
                                    g_list([g_pair(g_str(m), g_sig(s)) for m, s in c["meths"]], "(str * sig)"))
    if c["k"] == "grp":
        return "(CGrp %s)" % g_kids(c["kids"])
    return "CHelp"


def g_kids(kids):
    return g_list([g_pair(g_str(k), g_comp(c)) for k, c in kids], "(str * comp)")


def g_components(cs):
    if cs["form"] == "one":
        return "(One %s)" % g_comp(cs["c"])
    if cs["form"] == "list":
        return "(Lst %s)" % g_list([g_comp(c) for c in cs["cs"]], "comp")
    return "(Dct %s)" % g_kids(cs["kids"])


def g_doc(d):
    return g_list([g_pair(g_str(k), "(CLeaf %s)" % g_val(nd["leaf"], "R") if "leaf" in nd else "(CSec %s)" % g_doc(nd["sec"]))
                   for k, nd in d], "(str * cnode)")


def g_tok(t):
    if t[0] == "opt":
        return "(KOpt %s %s)" % (g_str(t[1]), g_val(t[2], "R"))
    if t[0] == "pos":
        return "(KPos %s)" % g_val(t[1], "R")
    return "(KCfg %s)" % g_doc(t[1])


def g_obs(o):
    if "ok" in o:
        try:
            log = g_list([g_pair(g_list([g_str(x) for x in name.split(".")], "str"),
                                 g_list([g_pair(g_str(k), g_val(v, "V")) for k, v in args], "(str * value)"))
                          for name, args in o["ok"]["log"]], "call")
        except ValueError:
            return "ObsOther"
        r = o["ok"]["ret"]
        if r[0] == "call":
            return "(ObsOk %s (RetCall %s))" % (log, g_nat(r[1]))
        if r[0] == "instance":
            return "(ObsOk %s RetInstance)" % log
        return "ObsOther"
    return {"parse": "ObsParse", "build": "ObsBuild", "crash": "ObsCrash"}.get(o["err"], "ObsOther")


def term(case, obs):
    return "{| c_aspos := %s; c_comps := %s; c_toks := %s; c_obs := %s |}" % (
        g_bool(case["as_pos"]), g_components(case["components"]), g_list([g_tok(t) for t in case["toks"]], "tok"), g_obs(obs))


# ------------------------------------------------------------------------------------------------
# evidence helpers
# ------------------------------------------------------------------------------------------------
def _given_names(toks):
    out = set()
    for t in toks:
        if t[0] == "opt":
            out.add(t[1])
        elif t[0] == "pos":
            out.add("<pos>")
        else:
            out.add("<cfg>")
    return out


def nontrivial_key(case, obs):
    if "ok" not in obs:
        return None
    if not any(t[0] != "pos" or not isinstance(t[1], str) or True for t in case["toks"]):
        return None
    nargs = sum(len(a) for _, a in obs["ok"]["log"])
    if nargs == 0 or not case["toks"]:
        return None
    return json.dumps([case["components"], case["toks"], case["as_pos"]], sort_keys=True)


def category(case, obs):
    form = case["components"]["form"]
    if form == "one":
        form = case["components"]["c"]["k"]
    res = "ok/%d calls" % len(obs["ok"]["log"]) if "ok" in obs else obs["err"]
    return "%s/%s" % (form, res)


def describe(case, obs):
    return {"history": "every runner process imports its programs one after the other under the single module name "
                       "`jvprog` (same module.qualname for successive classes/functions); replayed alone the case has no history",
            "program": _program_src(case["components"]), "as_positional": case["as_pos"],
            "argv": obs.get("argv"), "tokens": case["toks"],
            "observed": {k: v for k, v in obs.items() if k != "argv"}}


def shrink(case):
    toks = case["toks"]
    for i in range(len(toks)):
        yield dict(case, toks=toks[:i] + toks[i + 1:])
    comps = case["components"]

    def sigs(c):
        if c["k"] == "fn":
            yield c, "sig"
        elif c["k"] == "cls":
            yield c, "init"
            for ms in c["meths"]:
                yield ms, 1
        elif c["k"] == "grp":
            for _, kid in c["kids"]:
                yield from sigs(kid)

    roots = [comps["c"]] if comps["form"] == "one" else comps["cs"] if comps["form"] == "list" else [k for _, k in comps["kids"]]
    n = 0
    for r in roots:
        for _ in sigs(r):
            n += 1
    for which in range(n):
        c2 = json.loads(json.dumps(case))
        comps2 = c2["components"]
        roots2 = [comps2["c"]] if comps2["form"] == "one" else comps2["cs"] if comps2["form"] == "list" else [k for _, k in comps2["kids"]]
        allsigs = [x for r in roots2 for x in sigs(r)]
        holder, key = allsigs[which]
        s = holder[key]
        for j in range(len(s)):
            c3 = json.loads(json.dumps(c2))
            comps3 = c3["components"]
            roots3 = [comps3["c"]] if comps3["form"] == "one" else comps3["cs"] if comps3["form"] == "list" else [k for _, k in comps3["kids"]]
            h3, k3 = [x for r in roots3 for x in sigs(r)][which]
            gone = h3[k3][j]["n"]
            h3[k3] = h3[k3][:j] + h3[k3][j + 1:]
            if not any(t[0] == "opt" and t[1] == gone for t in c3["toks"]):
                yield c3


def search(rng, tier, broken):
    """Failing-input search after a broken proof / tie: ONE fresh quick-sized batch (bounded, ~a quick run)."""
    import sys
    from tie import framework
    mod = sys.modules[__name__]
    extra = generate(rng, "quick")
    eo = observe(extra)
    _bm, bi, bo = framework.judge_cases(mod, extra, eo, tag="x")
    known = framework.load_known_findings(PROP)
    bad = sorted(set(bi) | {i for i, k in bo if FINDING_CLASSES.get(k) not in known})
    if not bad:
        return None
    i = bad[0]
    return {"case": extra[i], "observed": eo[i], "explain": describe(extra[i], eo[i])}


META = {
    "level_text": "Theorem C12_binds_exactly (coq/Properties/C12.v, = model_refines_spec in Proofs/C12CliProofs.v): for EVERY component "
                  "tree (function, class with any number of methods, list, nested dict of any depth with _help entries), every "
                  "signature list (any length, types, defaults, private names), every tokenised command line (options, bare words, "
                  "--config documents with nested sections, repeated and shuffled), every text->value conversion function (so also for dataclass-typed and Optional[dataclass] parameters, whose values are "
                  "built by instantiate_classes: TData / VData / RData are constructors of the type, value and raw grammars inside the "
                  "induction, with the field defaults as the type's own default) and both "
                  "values of as_positional, signatures over the three parameter kinds positional-or-keyword / keyword-only / positional-only "
                  "(the model's call binding py_call is kind-aware: a keyword reaching a positional-only parameter is a TypeError): if no "
                  "Optional parameter has a str default that YAML reads as null and no parameter is positional-only (in_guard = the "
                  "conjunction of the two open finding classes, C12_guard_is_neither_finding_class), then the "
                  "code-shaped model of the PRESENT auto_cli (after the repairs 5bbebb1/2f69862/4bb4764; the three guards of the "
                  "earlier rounds are gone) (argparse table of "
                  "_add_signature_parameter, per-level namespaces, nested Namespace, dotted-key dispatch loop, _run_component with "
                  "its pops, CPython keyword binding) and the reference semantics agree on every outcome: same call log and "
                  "returned value (the selected component once; constructor then chosen method for a class; each parameter bound "
                  "to the last given-and-converted value, else its default), command line rejected exactly when the spec rejects, "
                  "parser refused exactly when the spec refuses, and a TypeError never escapes from the call. Proved by simulation "
                  "(induction over the token list, namespace = fold of the assignments seen) plus induction over the chain of "
                  "frames for nest/dispatch/_run_component. About the reference semantics itself: C12_each_parameter_once (names "
                  "of the binding = names of the signature in order; value = sp_value; required ones were given), "
                  "C12_given_else_default, C12_selected_only (dict/list: the first bare word selects, the log is that entry's), "
                  "C12_function_called_once, C12_class_split (model level: constructor and method each get exactly their own "
                  "parameters, method's return value returned), C12_required_iff_no_default and C12_optional_defaults_none (on the "
                  "code-shaped arg_of_param). C12_nullish_default_refuted and C12_positional_only_refuted (def run(alpha: int, /), `3`: model "
                  "and real code crash with TypeError, the spec demands run(3)) exhibit the "
                  "inputs on which the present code violates the property (both guards are needed; C12_positional_only_default_harmless: a "
                  "positional-only parameter that is not offered does no harm); C12_reserved_names_refuted, "
                  "C12_reserved_config_refuted, C12_private_optional_refuted, C12_class_subcommand_refuted are regression witnesses about the pre-repair model "
                  "(auto_cli true) and C12_round1_inputs_repaired shows the same inputs on the present model; "
                  "C12_guards_satisfiable is a non-trivial input inside the guards. The model is tied to the real auto_cli by "
                  "generated Python modules whose callees record their arguments; model- and spec-agreement are computed inside Coq.",
    "level_note": "Partial. Proved for all inputs of the modelled space; NOT modelled (trusted or only exercised): introspection "
                  "(inspect.signature, docstrings, stubs, parameter resolvers) - the model starts from the signature; argparse's "
                  "tokenisation of argv incl. abbreviations and `--opt value` splitting (exercised); the text/JSON->value conversion "
                  "INCLUDING the instantiation of dataclass values by instantiate_classes (a parameter `conv` of every theorem; the "
                  "run uses canonical texts of int/str/bool/List[int]/Optional and whole values of the one dataclass Point, whose "
                  "instances the generated callee reports field by field); CPython's keyword "
                  "call binding (modelled as py_call / bind_params incl. the positional-only rule, trusted); keyword-only vs "
                  "positional-or-keyword (irrelevant to a **kwargs call, exercised); *args / **kwargs parameters (skipped by the code, not in the grammar); "
                  "coroutine functions/methods, public properties, static/class methods and components taken from the calling module "
                  "(all exercised by generated programs, below the model: it starts from the subcommand's signature); --config given as a file (exercised); "
                  "a JSON null inside a --config for a non-Optional parameter (handed to the callee unvalidated, C02's subject, not generated). The model answers EUnmodelled (nothing claimed, "
                  "never generated) for: constructor parameter named `subcommand` of a class WITH methods or named like a method, subcommand named `config`, "
                  "--config sections for another subcommand than the chosen one, subcommand chosen by the config (C17), duplicate "
                  "or empty names, a parameter named print_shtab. set_defaults, fail_untyped=False / untyped parameters, return_parser, "
                  "subclass-typed parameters, linked arguments are outside the property and the model. Findings reserved-param-names, "
                  "private-optional-without-default and class-subcommand-param are repaired in /repo. Open findings (reproduced "
                  "bug-for-bug by the model): nullish-str-default (no safe fix), positional-only-param (fixes/C12-positional-only-param.patch).",
    "technique": "Rocq proof by simulation/refinement (code-shaped namespace fold vs. last-assignment reference semantics, induction over "
                 "token lists and frame chains, all component trees) + generated-program correspondence (real modules, real auto_cli) "
                 "judged inside Coq",
}

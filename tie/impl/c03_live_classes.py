"""C03 translator helper: evaluates exception-class expressions on the LIVE classes of the package under
PYTHONPATH and reports the subclass relation.

stdin : {"exprs": [[module, expr_source, extra_names], ...], "abs": ["builtins.TypeError", ...], "extra_universe": [...]}
stdout: {"classes": [qualified names], "mro": {name: [qualified superclasses incl. itself]},
         "expr_values": [[module, expr, extra, [qualified class names]]], "errors": [...]}
Pseudo classes  exit.SystemExit0 / exit.SystemExit2  (SystemExit with status 0 / 2) are added as subclasses of SystemExit.
"""
import importlib
import json
import sys

req = json.load(sys.stdin)
errors = []


def qname(c):
    return "%s.%s" % (c.__module__, c.__qualname__)


def resolve_abs(name):
    if name.startswith("exit."):
        return None
    mod, _, attr = name.rpartition(".")
    try:
        m = importlib.import_module(mod)
        obj = m
        for part in attr.split("."):
            obj = getattr(obj, part)
        return obj
    except Exception as e:  # noqa
        # qualified names like json.decoder.JSONDecodeError / yaml.error.YAMLError: try progressively shorter modules
        parts = name.split(".")
        for k in range(len(parts) - 1, 0, -1):
            try:
                obj = importlib.import_module(".".join(parts[:k]))
                for p in parts[k:]:
                    obj = getattr(obj, p)
                return obj
            except Exception:  # noqa
                continue
        errors.append("cannot resolve class %s: %r" % (name, e))
        return None


found = {}


def add(c):
    if isinstance(c, type) and issubclass(c, BaseException):
        found[qname(c)] = c
        return True
    return False


expr_values = []
for module, expr, extra in req["exprs"]:
    try:
        m = importlib.import_module("jsonargparse." + module if module != "__init__" else "jsonargparse")
        env = dict(vars(m))
        for name, tgt in (extra or {}).items():
            if tgt is None:
                continue
            kind, ref = tgt
            if kind in ("fn", "class"):
                parts = ref.split(".")
                obj = importlib.import_module("jsonargparse." + parts[0])
                for p in parts[1:]:
                    obj = getattr(obj, p)
                env[name] = obj
            elif kind == "extmod":
                env[name] = importlib.import_module(ref)
            elif kind == "ext":
                mod, _, attr = ref.rpartition(".")
                env[name] = getattr(importlib.import_module(mod), attr)
        val = eval(expr, env)  # noqa: S307 - source text of the package under test, evaluated in its own module
        if isinstance(val, str):  # string annotation
            val = eval(val, env)  # noqa: S307
        if isinstance(val, type):
            val = (val,)
        def flat(v):
            for c in v:
                if isinstance(c, tuple):
                    yield from flat(c)
                else:
                    yield c
        val = tuple(flat(tuple(val)))
        names = []
        for c in val:
            if not add(c):
                raise TypeError("%r is not an exception class" % (c,))
            names.append(qname(c))
        expr_values.append([module, expr, extra, names])
    except Exception as e:  # noqa
        errors.append("cannot evaluate %r in %s: %r" % (expr, module, e))

for name in list(req["abs"]) + list(req.get("extra_universe", [])):
    c = resolve_abs(name)
    if c is not None and not add(c):
        errors.append("%s is not an exception class" % name)

# close under superclasses
for c in list(found.values()):
    for d in c.__mro__:
        if d is not object:
            add(d)

classes = sorted(found)
mro = {n: [qname(d) for d in c.__mro__ if d is not object] for n, c in found.items()}
for pseudo in ("exit.SystemExit0", "exit.SystemExit2"):
    classes.append(pseudo)
    mro[pseudo] = [pseudo] + mro["builtins.SystemExit"]
print(json.dumps({"classes": classes, "mro": mro, "expr_values": expr_values, "errors": errors}))

"""C08 runner, second sentence of the property: parse a configuration of class_path/init_args specs (some derived from
signature defaults), call instantiate_classes TWICE on the same configuration and report the identity of every object
built, numbered by first appearance (objects of the class family that existed before the calls get the numbers
0..c-1), plus whether the configuration is unchanged.

stdin  {"signatures": {cls: [param..]}, "cases": [{"decls": [[key, kind, default|None]], "cfg": {key: value}, "expect": [node per decl]}]}
        value = None | {"cls":..,"args":{..}[,"dict_kwargs":{..}]} | [value..] | int | str
        node = {"i":int} | {"spec":[cls, from_default, [[param, node]..]]} | {"list":[node..]} | {"tup":[node..]}
stdout last line: [{"ok":bool,"ids1":[..],"ids2":[..],"cfg_same":bool,"exc":str}]
"""
import gc
import json
import sys
from typing import Any, Dict, List, Optional, Tuple

from jsonargparse import ArgumentParser, Namespace, lazy_instance

import c08_classes as K

MOD = "c08_classes."


def to_partial(v):
    """the same value as a hand-written partial configuration: specs are Namespace objects, the class given by NAME only"""
    if isinstance(v, dict) and "cls" in v:
        ns = Namespace(class_path=v["cls"])
        if v["args"]:
            ns.init_args = Namespace(**{k: to_partial(x) for k, x in v["args"].items()})
        if "dict_kwargs" in v:
            ns.dict_kwargs = dict(v["dict_kwargs"])
        return ns
    if isinstance(v, dict):
        return {k: to_partial(x) for k, x in v.items()}
    if isinstance(v, list):
        return [to_partial(x) for x in v]
    return v


def reuse_as_base(p, case, notes):
    """two-step histories: a partial configuration (hand-written, and the result of a parse with defaults=False) is
    handed as cfg_base= / namespace= to a second parse; is it still what it was?"""
    same = True
    given = {k: v for (k, kind, _) in case["decls"] for v in [case["cfg"].get(k)] if v is not None and kind in ("listbase", "dictbase", "base", "optbase")}
    if not given:
        return True
    bases = [Namespace(**{k: to_partial(v) for k, v in given.items()})]
    try:
        bases.append(p.parse_object({k: to_cfg(v) for k, v in given.items()}, defaults=False))
    except Exception as e:
        notes.append("parse_object(defaults=False): %s" % type(e).__name__)
    for base in bases:
        for how in ("cfg_base", "namespace"):
            b0 = plain(base)
            try:
                if how == "cfg_base":
                    p.parse_object({}, cfg_base=base)
                else:
                    p.parse_args([], namespace=base)
            except Exception:   # the second parse may reject the partial configuration; it must not modify it either way
                pass
            if plain(base) != b0:
                same = False
                notes.append("the configuration handed as %s= to a second parse was modified: %r" % (how, base))
    return same


def to_cfg(v):
    if isinstance(v, dict) and "cls" not in v:
        return {k: to_cfg(x) for k, x in v.items()}
    if isinstance(v, dict):
        d = {"class_path": MOD + v["cls"], "init_args": {k: to_cfg(x) for k, x in v["args"].items()}}
        if "dict_kwargs" in v:
            d["dict_kwargs"] = dict(v["dict_kwargs"])
        return d
    if isinstance(v, list):
        return [to_cfg(x) for x in v]
    return v


def mk_default(v):
    """a declared default: lazy_instance(Cls, **init_args); nested specs are handed to it as class_path/init_args dicts"""
    if v is None:
        return None
    return lazy_instance(getattr(K, v["cls"]), **{k: to_cfg(x) for k, x in v["args"].items()})


def plain(o):
    """deep snapshot: value, type and identity of every nested container"""
    if isinstance(o, Namespace):
        return ("ns", id(o), [(k, plain(v)) for k, v in vars(o).items()])
    if isinstance(o, dict):
        return ("d", id(o), [(k, plain(v)) for k, v in o.items()])
    if isinstance(o, (list, tuple)):
        return (type(o).__name__, id(o), [plain(v) for v in o])
    return (type(o).__name__, repr(o) if not isinstance(o, K.Base) else id(o))


def items(ia):
    return list((vars(ia) if isinstance(ia, Namespace) else ia).items())


class Walk:
    """identities of the objects built at the spec positions of the EXPECTED tree (case["expect"], computed by the
    harness from the configuration given, the parser defaults and the class signatures - not from the parser's output),
    in post-order. An object that existed before the calls is reported as 0 and not descended into; the others are
    numbered 1, 2, ... by first appearance."""

    def __init__(self, pre):
        self.pre = set(pre)
        self.num = {}
        self.keep = []

    def ids(self, node, built, out):
        (k, x), = node.items()
        if k == "spec":
            cls, _dflt, children = x
            if not isinstance(built, K.Base):
                raise ValueError("no object at a spec position: %r" % (built,))
            self.keep.append(built)
            if id(built) in self.pre:
                out.append(0)
                return
            if type(built).__name__ != cls:
                raise ValueError("expected a %s, got a %s" % (cls, type(built).__name__))
            for name, child in children:
                self.ids(child, getattr(built, name), out)
            out.append(self.num.setdefault(id(built), len(self.num) + 1))
        elif k in ("list", "tup"):
            if isinstance(built, dict):
                built = list(built.values())
            if not isinstance(built, (list, tuple)) or len(built) != len(x):
                raise ValueError("list/tuple not instantiated element-wise: %r" % (built,))
            for n, b in zip(x, built):
                self.ids(n, b, out)


TYPES = {"base": K.Base, "optbase": Optional[K.Base], "listbase": List[K.Base], "tupbase": Tuple[K.Base, int],
         "tuptupbase": Tuple[Tuple[K.Base, int], str], "tup3base": Tuple[Tuple[Tuple[int, K.Base], List[K.Base]], int],
         "anybase": Any, "dictbase": Dict[str, K.Base]}


def check_signatures(sig):
    """the harness's table of class signatures must be the one of c08_classes (fail closed)"""
    import inspect
    for cls, params in sig.items():
        real = [n for n, q in inspect.signature(getattr(K, cls).__init__).parameters.items() if n != "self" and q.kind == q.POSITIONAL_OR_KEYWORD]
        if real != params:
            raise SystemExit("tie broken: signature table of %s is %r, class has %r" % (cls, params, real))


def run(case):
    p = ArgumentParser(exit_on_error=False)
    for key, kind, d in case["decls"]:
        kw = {} if d is None else {"default": mk_default(d)}
        p.add_argument("--" + key, type=TYPES[kind], **kw)
    try:
        cfg = p.parse_object({k: to_cfg(v) for k, v in case["cfg"].items()})
        keys = [k for k, _, _ in case["decls"]]
        before = plain(cfg)
        # the other calls that are handed the configuration must leave it alone as well (only observed: the heap model
        # has no class types); then the two instantiate_classes calls
        note = ""
        try:
            p.validate(cfg)
            d1 = p.dump(cfg)
            if p.dump(cfg) != d1:
                raise ValueError("dumping the same configuration twice gives two different documents")
        except Exception as e:  # reported (ok = False), but the identities of the two instantiations are still taken
            note = "validate/dump of the parsed configuration: %s: %s" % (type(e).__name__, str(e)[:200])
        gc.collect()
        pre = [id(o) for o in gc.get_objects() if isinstance(o, K.Base)]
        r1 = p.instantiate_classes(cfg)
        r2 = p.instantiate_classes(cfg)
        w = Walk(pre)
        ids1, ids2 = [], []
        for k, node in zip(keys, case["expect"]):
            w.ids(node, r1[k], ids1)
        for k, node in zip(keys, case["expect"]):
            w.ids(node, r2[k], ids2)
        same = plain(cfg) == before
        notes = [note] if note else []
        same = reuse_as_base(p, case, notes) and same
        return {"ok": notes == [], "ids1": ids1, "ids2": ids2, "cfg_same": same, "exc": "; ".join(notes)}
    except BaseException as e:  # noqa
        return {"ok": False, "ids1": [], "ids2": [], "cfg_same": False, "exc": "%s: %s" % (type(e).__name__, str(e)[:300])}


def main():
    payload = json.load(sys.stdin)
    check_signatures(payload["signatures"])
    print(json.dumps([run(c) for c in payload["cases"]]))


main()

"""C08 runner, second sentence of the property: parse a configuration of class_path/init_args specs (some derived from
signature defaults), call instantiate_classes TWICE on the same configuration and report the identity of every object
built, numbered by first appearance (objects of the class family that existed before the calls get the numbers
0..c-1), plus whether the configuration is unchanged.

stdin  {"cases": [{"decls": [[key, kind, default|None]], "cfg": {key: value}}]}
        kind in base|optbase|listbase; value = None | {"cls":..,"args":{..}} | [value..] | int
stdout last line: [{"ok":bool,"c":int,"tree":ival,"ids1":[..],"ids2":[..],"cfg_same":bool,"exc":str}]
        ival = {"i":int} | {"spec":[cls,[ival..]]} | {"list":[ival..]}
"""
import gc
import json
import sys
from typing import List, Optional, Tuple

from jsonargparse import ArgumentParser, Namespace, lazy_instance

import c08_classes as K

MOD = "c08_classes."


def to_cfg(v):
    if isinstance(v, dict):
        d = {"class_path": MOD + v["cls"], "init_args": {k: to_cfg(x) for k, x in v["args"].items()}}
        if "dict_kwargs" in v:
            d["dict_kwargs"] = dict(v["dict_kwargs"])
        return d
    if isinstance(v, list):
        return [to_cfg(x) for x in v]
    return v


def mk_default(v):
    if v is None:
        return None
    if isinstance(v, list):
        return [mk_default(x) for x in v]
    return lazy_instance(getattr(K, v["cls"]), **{k: (mk_default(x) if isinstance(x, (dict, list)) else x) for k, x in v["args"].items()})


def plain(o):
    """deep snapshot: value, type and identity of every nested container"""
    if isinstance(o, Namespace):
        return ("ns", id(o), [(k, plain(v)) for k, v in vars(o).items()])
    if isinstance(o, dict):
        return ("d", id(o), [(k, plain(v)) for k, v in o.items()])
    if isinstance(o, (list, tuple)):
        return (type(o).__name__, id(o), [plain(v) for v in o])
    return (type(o).__name__, repr(o) if not isinstance(o, K.Base) else id(o))


def items(ia):
    return list((vars(ia) if isinstance(ia, Namespace) else ia).items())


def is_spec(v):
    return isinstance(v, (Namespace, dict)) and "class_path" in v


def tree(v):
    """the configuration as the model sees it"""
    if is_spec(v):
        ia = v.get("init_args") or Namespace()
        return {"spec": [v["class_path"].split(".")[-1], [tree(x) for _, x in items(ia)]]}
    if isinstance(v, (list, tuple)):
        return {"list": [tree(x) for x in v]}
    if isinstance(v, bool) or not isinstance(v, int):
        return {"i": 0}
    return {"i": v}


class Walk:
    def __init__(self, pre):
        self.num = {i: n for n, i in enumerate(pre)}
        self.keep = []

    def ids(self, spec, built, out):
        """post-order identities of the objects built for `spec`"""
        if is_spec(spec):
            if not isinstance(built, K.Base):
                raise ValueError("spec not instantiated: %r" % (built,))
            ia = spec.get("init_args") or Namespace()
            for k, x in items(ia):
                self.ids(x, getattr(built, k), out)
            self.keep.append(built)
            out.append(self.num.setdefault(id(built), len(self.num)))
        elif isinstance(spec, (list, tuple)):
            if not isinstance(built, (list, tuple)) or len(built) != len(spec):
                raise ValueError("list/tuple not instantiated element-wise")
            for s, b in zip(spec, built):
                self.ids(s, b, out)


TYPES = {"base": K.Base, "optbase": Optional[K.Base], "listbase": List[K.Base], "tupbase": Tuple[K.Base, int],
         "tuptupbase": Tuple[Tuple[K.Base, int], str], "tup3base": Tuple[Tuple[Tuple[int, K.Base], List[K.Base]], int]}


def run(case):
    p = ArgumentParser(exit_on_error=False)
    for key, kind, d in case["decls"]:
        kw = {} if d is None else {"default": mk_default(d)}
        p.add_argument("--" + key, type=TYPES[kind], **kw)
    try:
        cfg = p.parse_object({k: to_cfg(v) for k, v in case["cfg"].items()})
        keys = [k for k, _, _ in case["decls"]]
        before = plain(cfg)
        t = {"list": [tree(cfg[k]) for k in keys]}
        # the other calls that are handed the configuration must leave it alone as well (only observed: the heap model
        # has no class types); then the two instantiate_classes calls
        p.validate(cfg)
        d1 = p.dump(cfg)
        if p.dump(cfg) != d1:
            raise ValueError("dumping the same configuration twice gives two different documents")
        gc.collect()
        pre = [id(o) for o in gc.get_objects() if isinstance(o, K.Base)]
        r1 = p.instantiate_classes(cfg)
        r2 = p.instantiate_classes(cfg)
        w = Walk(pre)
        ids1, ids2 = [], []
        for k in keys:
            w.ids(cfg[k], r1[k], ids1)
        for k in keys:
            w.ids(cfg[k], r2[k], ids2)
        return {"ok": True, "c": len(pre), "tree": t, "ids1": ids1, "ids2": ids2, "cfg_same": plain(cfg) == before, "exc": ""}
    except BaseException as e:  # noqa
        return {"ok": False, "c": 0, "tree": {"list": []}, "ids1": [], "ids2": [], "cfg_same": False,
                "exc": "%s: %s" % (type(e).__name__, str(e)[:300])}


def main():
    payload = json.load(sys.stdin)
    print(json.dumps([run(c) for c in payload["cases"]]))


main()

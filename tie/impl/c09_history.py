"""C09 runner: histories of parser operations on re-used parsers, compared step by step with fresh parsers.

stdin : {"cases": [ {"parsers": [decl, ...], "ops": [op, ...]}, ... ]}
stdout: last line = JSON list, one entry per case: {"steps": [ {"out":…, "fresh":…, "state":…}, … ], "init": state}

Process structure (so that "fresh" really is fresh):
  * this process (the zygote) imports jsonargparse and never builds or calls a parser (the warm-up sequence runs in
    the history children, never here);
  * every history runs in its own forked child (pristine interpreter state, pristine ContextVars);
  * the reference outcome of every step is computed in its own forked child of the zygote on a parser built there
    (so neither ContextVars nor class-level / module-level state touched by the history can reach it).

The abstraction of the real state after each step (the α of the state correspondence):
  pending      parser.print_config of every root parser (full request / request with popped key / absent)
  args         parser.args of every (sub)parser, un-rendered back to tokens
  shtab        whether a ShtabAction sits in parser._actions
  ctx          jsonargparse ContextVars that are set in the current context (parse_kwargs, subclass_arg_parser,
               dump_kwargs are modelled; any other one that is set counts as unexplained)
  help_skip    'skip' present in the class-level dict _ActionHelpClassPath.sub_add_kwargs
  unexplained  every other difference between the deep canonical snapshot now and the snapshot taken right after
               the parsers were built: parser.__dict__, every action's __dict__, groups, sub-parsers (recursively),
               mutable module globals and mutable class attributes of all jsonargparse modules.
"""
import argparse
import contextlib
import contextvars
import hashlib
import io
import json
import logging
import os
import sys
import types
import warnings
from typing import Callable

sys.path.insert(0, os.path.dirname(os.path.abspath(__file__)))

import jsonargparse  # noqa: E402
from jsonargparse import ActionConfigFile, ArgumentError, ArgumentParser, Namespace  # noqa: E402
from jsonargparse._actions import _ActionHelpClassPath  # noqa: E402

import c09_classes  # noqa: E402
from c09_classes import Base  # noqa: E402

try:
    from jsonargparse._completions import ShtabAction
except Exception:  # pragma: no cover
    ShtabAction = ()

warnings.simplefilter("ignore")
DEFAULT_INIT = {"SubA": {"a": 5, "c": 9}, "SubB": {"a": 5, "b": "hey"}}
INT_DEFAULT = 1
STR_DEFAULT = "x"


# ------------------------------------------------------------------------------------------------
# building the real parser from a declaration
# ------------------------------------------------------------------------------------------------
def build_one(pd, **kw):
    p = ArgumentParser(exit_on_error=False, **kw)
    if pd["cfg"]:
        p.add_argument("--cfg", action=ActionConfigFile)
    for name, kind in pd["opts"]:
        if "." in name:
            continue   # fields of the group g, added below
        ty = int if kind == "int" else str
        if name in pd["req"]:
            p.add_argument("--" + name, type=ty, required=True)
        else:
            p.add_argument("--" + name, type=ty, default=INT_DEFAULT if kind == "int" else STR_DEFAULT)
    base_cls = [co for co in pd["cls"] if len(co) < 3 or co[2] == "Base"]
    if pd.get("sig"):
        # class / Callable / dataclass options come from a signature: non-empty action.sub_add_kwargs
        names = [co[0] for co in base_cls]
        tag = ("m" if "model" in names else "") + ("c" if "cb" in names else "") + ("d" if pd.get("dc") else "")
        p.add_class_arguments(c09_classes.HOLDERS[tag])
    else:
        for co in base_cls:
            name, is_callable = co[:2]
            dflt = None
            if len(co) > 3 and co[3]:   # the default is a class spec WITH init_args
                dflt = {"class_path": "c09_classes." + co[3], "init_args": DEFAULT_INIT[co[3]]}
            p.add_argument("--" + name, type=(Callable[[int], Base] if is_callable else Base), default=dflt)
    if pd.get("lk"):
        # a dataclass-typed argument (group g), a class option whose subclasses annotate o differently, and a
        # parse-time link without compute_fn from the group key into the class' init_args
        p.add_argument("--g", type=c09_classes.Data)
        p.add_argument("--lm", type=c09_classes.LBase, default=None)
        p.link_arguments("g", "lm.init_args.o")
    for src, tgt in pd.get("links", []):
        p.link_arguments(src, tgt)
    return p


def build(decl, idx):
    root = build_one(decl["root"], prog="app%d" % idx, env_prefix="APP", default_env=False)
    labels = {id(root): "P%d" % idx}
    parsers = {"": root}
    if decl["subs"]:
        sc = root.add_subcommands(required=decl["subreq"])
        for name, pd in decl["subs"]:
            sp = build_one(pd)
            sc.add_subcommand(name, sp)
            labels[id(sp)] = "P%d/%s" % (idx, name)
            parsers[name] = sp
    return root, parsers, labels


# ------------------------------------------------------------------------------------------------
# rendering ops
# ------------------------------------------------------------------------------------------------
def lit(v):
    s = v
    if s and (s.isdigit() or (s[0] == "-" and s[1:].isdigit())):
        return int(s)
    return s


def nested(items, decl):
    cls_names = {co[0] for co in decl["root"]["cls"]}
    d = {}
    for k, v in items:
        if k == "d" and decl["root"].get("dc"):
            a, b = v.split(",")   # "A,B": a mapping with the non-empty fields
            d["d"] = {f: lit(x) for f, x in (("a", a), ("b", b)) if x != ""}
            continue
        parts = k.split(".")
        if parts[0] in cls_names:
            if len(parts) == 1:
                d[parts[0]] = {"class_path": v}
            else:
                d.setdefault(parts[0], {}).setdefault("init_args", {})[parts[1]] = lit(v)
            continue
        cur = d
        for part in parts[:-1]:
            cur = cur.setdefault(part, {})
        cur[parts[-1]] = lit(v)
    return d


def render_tok(t, decl, op=None):
    """one token -> the list of argv items it stands for.  Renderings chosen per call (same meaning, other code path):
    sep = "--<cls>.help", "<class>" as two items"""
    op = op or {}
    if t[0] == "opt":
        name = t[1]
        if op.get("sep") and name.endswith(".help"):
            return ["--" + name, t[2]]
        return ["--%s=%s" % (name, t[2])]
    if t[0] == "flag":
        return ["--" + t[1]]
    if t[0] == "cfg":
        return ["--cfg=" + json.dumps(nested(t[1], decl))]
    return [t[1]]


def render_argv(op, decl):
    return [a for t in op["argv"] for a in render_tok(t, decl, op)]


def render_env(items):
    return {"APP_" + k.upper().replace(".", "__"): v for k, v in items}


# ------------------------------------------------------------------------------------------------
# outcomes
# ------------------------------------------------------------------------------------------------
def canon_result(r):
    if isinstance(r, Namespace):
        return {"ns": canon_result(r.as_dict())}
    if isinstance(r, dict):
        return {str(k): canon_result(v) for k, v in r.items()}
    if isinstance(r, (list, tuple)):
        return [canon_result(v) for v in r]
    if isinstance(r, (str, int, float, bool)) or r is None:
        return r
    if type(r).__module__ == "c09_classes":
        return {"obj": type(r).__name__, "vars": {k: canon_result(v) for k, v in sorted(vars(r).items())}}
    if callable(r):
        return "<callable>"
    return "<%s>" % type(r).__name__


def outcome(fn):
    out, err = io.StringIO(), io.StringIO()
    try:
        with contextlib.redirect_stdout(out), contextlib.redirect_stderr(err):
            r = fn()
        kind, payload = "ok", canon_result(r)
    except ArgumentError as e:
        kind, payload = "err", str(e)
    except SystemExit as e:
        code = e.code if isinstance(e.code, int) else (0 if e.code is None else 1)
        kind, payload = ("exit0" if code == 0 else "exit%d" % code), None
    except BaseException as e:  # noqa
        kind, payload = "exc", "%s: %s" % (type(e).__name__, e)
    text = json.dumps([kind, payload, out.getvalue(), err.getvalue()], sort_keys=False, default=repr)
    return {"kind": kind, "tok": hashlib.sha256(text.encode()).hexdigest()[:10],
            "text": (json.dumps(payload, default=repr)[:300] + " | " + out.getvalue()[:300]) if kind != "ok" or True else ""}


def make_cfg(decl, idx, op):
    """cfg argument of dump/validate/instantiate: built by an auxiliary identical parser in a copied context."""

    def mk():
        aux, _, _ = build(decl, idx)
        cfg = aux.parse_object(nested(op["items"], decl))
        if op.get("corrupt"):
            cfg["k"] = "bad"
        return cfg

    return contextvars.copy_context().run(mk)


def run_op(parser, decl, idx, op):
    kind = op["op"]
    if kind == "parse_args":
        argv = render_argv(op, decl)
        kw = {}
        if op.get("kw"):   # parse_args(argv, env=..., defaults=...)
            kw = {"env": op["kw"][0], "defaults": op["kw"][1]}
        if op.get("sysargv"):   # parse_args() without a list: the command line of the process
            def call():
                old = sys.argv
                sys.argv = ["app"] + argv
                try:
                    return parser.parse_args(**kw)
                finally:
                    sys.argv = old
            return outcome(call)
        return outcome(lambda: parser.parse_args(argv, **kw))
    if kind == "parse_object":
        obj = nested(op["items"], decl)
        return outcome(lambda: parser.parse_object(obj))
    if kind == "parse_string":
        s = json.dumps(nested(op["items"], decl))
        return outcome(lambda: parser.parse_string(s))
    if kind == "parse_env":
        env = render_env(op["items"])
        return outcome(lambda: parser.parse_env(env))
    if kind == "get_defaults":
        return outcome(lambda: parser.get_defaults())
    cfg = make_cfg(decl, idx, op)
    if kind == "dump":
        f = op["flags"]
        return outcome(lambda: parser.dump(cfg, skip_none=f["skip_none"], skip_default=f["skip_default"],
                                           skip_validation=f["skip_validation"]))
    if kind == "validate":
        return outcome(lambda: parser.validate(cfg))
    if kind == "instantiate":
        return outcome(lambda: parser.instantiate_classes(cfg))
    raise ValueError("unknown op " + kind)


# ------------------------------------------------------------------------------------------------
# canonical deep snapshot
# ------------------------------------------------------------------------------------------------
STRIP = {"print_config", "args"}


class Canon:
    def __init__(self, labels):
        self.labels = labels
        self.seen = {}

    def reset(self):
        self.seen = {}

    def label(self, obj):
        if id(obj) in self.labels:
            return self.labels[id(obj)]
        if isinstance(obj, argparse.ArgumentParser):
            return "inner" if getattr(obj, "_inner_parser", False) else "other-parser"
        return None

    def go(self, obj, stack, depth, top=False):
        if obj is None or isinstance(obj, (bool, int, str)):
            return obj
        if isinstance(obj, float):
            return repr(obj)
        if depth > 14:
            return "<deep>"
        if id(obj) in stack:
            return "<cycle %s>" % type(obj).__name__
        if isinstance(obj, argparse.ArgumentParser) and not top:
            return "<parser %s>" % self.label(obj)
        if ShtabAction and isinstance(obj, ShtabAction):
            return "<shtab>"
        if isinstance(obj, (types.FunctionType, types.BuiltinFunctionType, types.MethodType)):
            return "<fn %s>" % getattr(obj, "__qualname__", "?")
        if isinstance(obj, type):
            return "<class %s>" % obj.__qualname__
        if isinstance(obj, types.ModuleType):
            return "<module %s>" % obj.__name__
        if isinstance(obj, logging.Logger):
            return "<logger %s %s>" % (obj.name, obj.level)
        if isinstance(obj, contextvars.ContextVar):
            return "<contextvar %s>" % obj.name
        stack = stack | {id(obj)}
        if hasattr(obj, "__dict__") or isinstance(obj, (dict, list, set)):
            # shared objects are expanded once (first visit, deterministic order), later visits are references
            if id(obj) in self.seen:
                return "<ref %s>" % type(obj).__name__
            self.seen[id(obj)] = len(self.seen)
        if isinstance(obj, dict):
            return {"d": [[self.key(k), self.go(v, stack, depth + 1)] for k, v in obj.items()
                          if not (ShtabAction and isinstance(v, ShtabAction))]}
        if isinstance(obj, (list, tuple)):
            return [self.go(v, stack, depth + 1) for v in obj if not (ShtabAction and isinstance(v, ShtabAction))]
        if isinstance(obj, (set, frozenset)):
            return {"set": sorted(json.dumps(self.go(v, stack, depth + 1), sort_keys=True, default=repr) for v in obj)}
        if hasattr(obj, "__dict__"):
            d = vars(obj)
            items = [[k, self.go(v, stack, depth + 1)] for k, v in d.items()
                     if not (isinstance(obj, argparse.ArgumentParser) and k in STRIP) and not self.benign_memo(obj, k, v)]
            return {"o": type(obj).__qualname__, "v": items}
        if hasattr(obj, "__slots__"):
            return {"o": type(obj).__qualname__, "s": [[k, self.go(getattr(obj, k, None), stack, depth + 1)] for k in obj.__slots__]}
        return "<%s>" % type(obj).__qualname__

    @staticmethod
    def benign_memo(obj, k, v):
        """action._check_type_kwargs (_common.py:330) memoises the parameter names of self._check_type: dropped from the
        snapshot only when it equals the recomputed value."""
        if k == "_check_type_kwargs" and isinstance(obj, argparse.Action):
            import inspect

            return v == set(inspect.signature(obj._check_type).parameters.keys())
        return False

    def key(self, k):
        return k if isinstance(k, str) else json.dumps(self.go(k, frozenset(), 0), default=repr)


def flatten(c, path, acc):
    if isinstance(c, dict) and "d" in c and len(c) == 1:
        for k, v in c["d"]:
            flatten(v, path + "[" + str(k) + "]", acc)
        acc[path + "#keys"] = json.dumps([k for k, _ in c["d"]])
    elif isinstance(c, dict) and "o" in c and "v" in c:
        acc[path + "#type"] = c["o"]
        for k, v in c["v"]:
            flatten(v, path + "." + str(k), acc)
        acc[path + "#attrs"] = json.dumps(sorted(k for k, _ in c["v"]))
    elif isinstance(c, list):
        acc[path + "#len"] = len(c)
        for i, v in enumerate(c):
            flatten(v, path + "[%d]" % i, acc)
    else:
        acc[path] = json.dumps(c, sort_keys=True, default=repr)
    return acc


def jsonargparse_modules():
    return sorted((n, m) for n, m in sys.modules.items() if (n == "jsonargparse" or n.startswith("jsonargparse.")) and m)


GLOBAL_SKIP = {
    # pure memoisation of source inspection (functools-like caches keyed by code objects), no semantic state
}


def global_snapshot(canon):
    acc = {}
    for name, mod in jsonargparse_modules():
        for g, val in list(vars(mod).items()):
            if g.startswith("__"):
                continue
            if isinstance(val, (dict, list, set)) and not isinstance(val, type):
                if getattr(val, "__module__", None) == "typing":
                    continue
                flatten(canon.go(val, frozenset(), 8), "%s.%s" % (name, g), acc)
            elif isinstance(val, type) and getattr(val, "__module__", "") == name:
                for a, av in list(vars(val).items()):
                    if isinstance(av, (dict, list, set)) and not a.startswith("__"):
                        flatten(canon.go(av, frozenset(), 8), "%s.%s::%s" % (name, g, a), acc)
    return acc


def ctx_snapshot(canon, own_vars):
    res = {}
    for var, val in contextvars.copy_context().items():
        if var in own_vars:
            res[var.name] = val
    return res


def find_contextvars():
    s = set()
    for _, mod in jsonargparse_modules():
        for v in vars(mod).values():
            if isinstance(v, contextvars.ContextVar):
                s.add(v)
    return s


class Tracker:
    """Everything needed to compute the abstraction of the real state of one history."""

    def __init__(self, built, untok):
        self.built = built  # list of (root, parsers{name->parser}, labels)
        self.labels = {}
        for _, _, lab in built:
            self.labels.update(lab)
        self.canon = Canon(self.labels)
        self.own_vars = find_contextvars()
        self.untok = untok
        self.base = self.deep()

    def deep(self):
        acc = {}
        self.canon.reset()
        for root, parsers, labels in self.built:
            for name, p in parsers.items():
                flatten(self.canon.go(p, frozenset(), 0, top=True), labels[id(p)], acc)
        acc.update(global_snapshot(self.canon))
        return acc

    def state(self):
        unexplained = []
        now = self.deep()
        # the action of the dataclass option d: its sub_add_kwargs["default"] is abstracted below (ddef)
        dpref = [k[: -len(".dest")] for k, v in now.items() if k.endswith(".dest") and v == '"d"']
        for k in sorted(set(now) | set(self.base)):
            if now.get(k) != self.base.get(k):
                if any(k.startswith(p + ".sub_add_kwargs[default]") for p in dpref):
                    continue
                if any(k == p + ".sub_add_kwargs#keys" for p in dpref) and \
                        [x for x in json.loads(now.get(k, "[]")) if x != "default"] == json.loads(self.base.get(k, "[]")):
                    continue
                if k.endswith("_ActionHelpClassPath::sub_add_kwargs[skip]") or k.endswith("_ActionHelpClassPath::sub_add_kwargs#keys"):
                    continue
                unexplained.append("%s: %s -> %s" % (k, str(self.base.get(k))[:60], str(now.get(k))[:60]))
        pending, args, shtab, ddef = [], [], [], []
        for root, parsers, labels in self.built:
            dact = [a for a in root._actions if a.dest == "d" and hasattr(a, "sub_add_kwargs")]
            dd = dact[0].sub_add_kwargs.get("default") if dact else None
            if dd is None:
                ddef.append(None)
            elif isinstance(dd, Namespace) and sorted(vars(dd)) == ["a", "b"] and all(type(x) is int for x in vars(dd).values()):
                ddef.append([str(dd.a), str(dd.b)])
            else:
                ddef.append(None)
                unexplained.append("sub_add_kwargs['default'] of d is %r" % (dd,))
            shtab.append(bool(ShtabAction) and any(isinstance(a, ShtabAction) for a in root._actions))
            pa = []
            for name, p in parsers.items():
                if "args" in vars(p):
                    toks = self.untok(p.args)
                    if toks is None:
                        unexplained.append("%s.args = %r is not an argv of this history" % (labels[id(p)], p.args))
                    else:
                        pa.append([name, toks])
                if name != "" and "print_config" in vars(p):
                    unexplained.append("%s.print_config set on a sub-parser" % labels[id(p)])
                if name != "" and ShtabAction and any(isinstance(a, ShtabAction) for a in p._actions):
                    unexplained.append("%s has a ShtabAction" % labels[id(p)])
            args.append(pa)
            if "print_config" in vars(root):
                d = dict(root.print_config)
                flags = [bool(d.pop("skip_none", False)), bool(d.pop("skip_default", False)), bool(d.pop("yaml_comments", False))]
                if d.pop("skip_validation", False) is not False:
                    unexplained.append("print_config.skip_validation")
                if "key" in d and "subparser" in d:
                    sub = self.canon.label(d.pop("subparser"))
                    pending.append({"form": "full", "key": d.pop("key"), "sub": sub, "flags": flags})
                elif "key" not in d and "subparser" not in d:
                    pending.append({"form": "broken", "flags": flags})
                else:
                    unexplained.append("print_config request half popped: %r" % sorted(d))
                    pending.append(None)
                    d.pop("key", None), d.pop("subparser", None)
                if d:
                    unexplained.append("print_config extra keys %r" % sorted(d))
            else:
                pending.append(None)
        ctx = {"parse_kwargs": None, "subclass_arg_parser": None, "dump_kwargs": None}
        for name, val in ctx_snapshot(self.canon, self.own_vars).items():
            if name == "parse_kwargs" and isinstance(val, dict) and set(val) == {"env", "defaults"}:
                ctx[name] = [val["env"], val["defaults"]]
            elif name == "subclass_arg_parser":
                ctx[name] = self.canon.label(val) or "non-parser"
            elif name == "dump_kwargs" and isinstance(val, dict) and set(val) == {"skip_validation", "skip_none"}:
                ctx[name] = [bool(val["skip_validation"]), bool(val["skip_none"])]
            else:
                unexplained.append("ContextVar %s left set to %s" % (name, repr(val)[:60]))
        hs = _ActionHelpClassPath.__dict__.get("sub_add_kwargs", {})
        return {"pending": pending, "args": args, "shtab": shtab, "ddef": ddef, "ctx": ctx, "help_skip": "skip" in hs,
                "unexplained": unexplained[:6]}


# ------------------------------------------------------------------------------------------------
# forking
# ------------------------------------------------------------------------------------------------
def in_child(fn):
    r, w = os.pipe()
    pid = os.fork()
    if pid == 0:
        code = 0
        try:
            os.close(r)
            try:
                res = {"ok": fn()}
            except BaseException as e:  # noqa
                import traceback

                res = {"crash": "%s: %s\n%s" % (type(e).__name__, e, traceback.format_exc()[-1500:])}
            with os.fdopen(w, "w") as f:
                f.write(json.dumps(res, default=repr))
        finally:
            os._exit(code)
    os.close(w)
    with os.fdopen(r) as f:
        data = f.read()
    os.waitpid(pid, 0)
    if not data:
        return {"crash": "child died without output"}
    return json.loads(data)


def run_history(case):
    decls, ops = case["parsers"], case["ops"]
    table = {}
    for op in ops:
        if op["op"] == "parse_args":
            for t in op["argv"]:
                table[tuple(render_tok(t, decls[op["p"]], op))] = t

    def untok(argv):
        res, i = [], 0
        while i < len(argv):
            if len(argv) > i + 1 and tuple(argv[i:i + 2]) in table:
                res.append(table[tuple(argv[i:i + 2])])
                i += 2
            elif (argv[i],) in table:
                res.append(table[(argv[i],)])
                i += 1
            else:
                return None
        return res

    def fresh(i, imports):
        op = ops[i]

        def f():
            # same import state as the re-used side at this point: which harness modules a class_path has pulled in
            # is environment (it changes the "known subclasses" of every help text), not state of jsonargparse
            for m in imports:
                __import__(m)
            root, _, _ = build(decls[op["p"]], op["p"])
            return run_op(root, decls[op["p"]], op["p"], op)

        return f

    base_modules = {m for m in sys.modules if m.startswith("c09_")}

    def hist():
        warm_up()
        built = [build(d, i) for i, d in enumerate(decls)]
        tr = Tracker(built, untok)
        init = tr.state()
        steps = []
        for op in ops:
            imports = sorted(m for m in sys.modules if m.startswith("c09_") and m not in base_modules)
            o = run_op(built[op["p"]][0], decls[op["p"]], op["p"], op)
            steps.append({"out": o, "state": tr.state(), "imports_before": imports})
        return {"init": init, "steps": steps}

    h = in_child(hist)
    if "crash" in h:
        return {"crash": h["crash"]}
    h = h["ok"]
    for i in range(len(ops)):
        f = in_child(fresh(i, h["steps"][i].get("imports_before", [])))
        if "crash" in f:
            return {"crash": f["crash"]}
        h["steps"][i]["fresh"] = f["ok"]
    return h


def warm_up():
    """One fixed call sequence on a throwaway parser, in a copied context, so that lazily initialised module state that
    does not depend on what is parsed (PyYAML loader/dumper resolver tables copied into the jsonargparse subclasses
    on first use, the docstring-style default of _optionals) exists before the baseline snapshot is taken.
    It runs in the HISTORY child only (before the parsers are built): the fresh references never see it, so whatever
    it leaves behind that changes an answer shows up as a difference between re-used and fresh."""

    def f():
        p = ArgumentParser(exit_on_error=False)
        p.add_argument("--w", type=int, default=1)
        p.add_argument("--m", type=Base, default=None)
        cfg = p.parse_object({"w": 2, "m": {"class_path": "c09_classes.SubA"}})
        p.dump(cfg)
        p.instantiate_classes(cfg)
        p.parse_string("w: 3")

    contextvars.copy_context().run(f)


def main():
    cases = json.load(sys.stdin)["cases"]
    print(json.dumps([run_history(c) for c in cases]))


if __name__ == "__main__":
    main()

"""Runs histories on the real Namespace. stdin {"cases": [[op,...],...]}; per case returns
{"ops": [op with values in stored form], "steps": [[out, state], ...]}."""
import json
import sys

from jsonargparse import Namespace, dict_to_namespace, namespace_to_dict


def build(v):
    (k, x), = v.items()
    if k == "i":
        return x
    if k == "s":
        return x
    if k == "n":
        return None
    if k == "l":
        return [build(e) for e in x]
    if k == "t":
        return tuple(build(e) for e in x)
    if k == "d":
        return {kk: build(vv) for kk, vv in x}
    if k == "ns":
        ns = Namespace()
        for kk, vv in x:
            setattr(ns, kk, build(vv))
        return ns
    raise ValueError(k)


def enc(o):
    if isinstance(o, Namespace):
        return {"ns": [[k, enc(v)] for k, v in vars(o).items()]}
    if isinstance(o, bool):
        return {"s": "<bool %s>" % o}
    if isinstance(o, int):
        return {"i": o}
    if isinstance(o, str):
        return {"s": o}
    if o is None:
        return {"n": 0}
    if isinstance(o, list):
        return {"l": [enc(e) for e in o]}
    if isinstance(o, tuple):
        return {"t": [enc(e) for e in o]}
    if isinstance(o, dict):
        if all(isinstance(k, str) for k in o):
            return {"d": [[k, enc(v)] for k, v in o.items()]}
    return {"s": "<%s>" % type(o).__name__}


def mutable_ids(o, acc):
    if isinstance(o, Namespace):
        acc.add(id(o))
        for v in vars(o).values():
            mutable_ids(v, acc)
    elif isinstance(o, dict):
        acc.add(id(o))
        for v in o.values():
            mutable_ids(v, acc)
    elif isinstance(o, list):
        acc.add(id(o))
        for v in o:
            mutable_ids(v, acc)
    return acc


def branch_ids(o, acc):
    """ids of the Namespace / dict nodes reachable through Namespaces and dicts only (what clone / a copy must not share)"""
    if isinstance(o, Namespace):
        acc.add(id(o))
        for v in vars(o).values():
            branch_ids(v, acc)
    elif isinstance(o, dict):
        acc.add(id(o))
        for v in o.values():
            branch_ids(v, acc)
    return acc


def run(ops):
    ns = Namespace()
    steps, stored_ops = [], []
    for op in ops:
        kind = op["op"]
        sop = dict(op)
        try:
            if "v" in op:
                val = build(op["v"])
                sop["v"] = enc(val)
            if "dflt" in op:
                dflt = build(op["dflt"])
                sop["dflt"] = enc(dflt)
            if kind == "set":
                ns[op["k"]] = val
                out = {"unit": 0}
            elif kind == "setattr":
                setattr(ns, op["k"], val)
                out = {"unit": 0}
            elif kind == "get":
                out = {"val": enc(ns[op["k"]])}
            elif kind == "getd":
                out = {"val": enc(ns.get(op["k"], dflt))}
            elif kind == "contains":
                out = {"bool": op["k"] in ns}
            elif kind == "del":
                del ns[op["k"]]
                out = {"unit": 0}
            elif kind == "pop":
                out = {"val": enc(ns.pop(op["k"], dflt))}
            elif kind in ("updv", "updns"):
                r = ns.update(val, op.get("k"), op["ou"])
                out = {"unit": 0} if r is ns else {"fail": "update did not return self"}
            elif kind == "clone":
                c = ns.clone()
                ok = (c == ns) and enc(c) == enc(ns) and type(c) is Namespace
                ok = ok and not (mutable_ids(c, set()) & mutable_ids(ns, set()))
                out = {"bool": bool(ok)}
            elif kind == "items":
                br = op["br"]
                items = list(ns.items(br))
                keys = list(ns.keys(br))
                vals = list(ns.values(br))
                if keys != [k for k, _ in items] or [id(v) for v in vals] != [id(v) for _, v in items]:
                    out = {"fail": "keys/values are not the projections of items"}
                else:
                    out = {"items": [[k, enc(v)] for k, v in items]}
            elif kind == "asdict":
                before = enc(ns)
                d = ns.as_dict()
                d2 = namespace_to_dict(ns)      # documented as a COPY converted into a nested dictionary
                if enc(ns) != before:
                    out = {"fail": "as_dict / namespace_to_dict modified the namespace"}
                elif enc(d2) != enc(d) or type(d2) is not dict:
                    out = {"fail": "namespace_to_dict differs from as_dict"}
                elif branch_ids(d2, set()) & branch_ids(ns, set()):
                    out = {"fail": "namespace_to_dict shares a branch with the namespace"}
                else:
                    out = {"val": enc(d)}
            elif kind == "initdict":
                ns = Namespace(val)
                out = {"unit": 0}
            elif kind == "fromdict":
                ns = dict_to_namespace(val)
                out = {"unit": 0}
            elif kind == "getsteps":
                cur = ns
                for seg in op["k"].split("."):
                    cur = cur[seg]
                out = {"val": enc(cur)}
            elif kind == "eq":
                r = [ns == val, val == ns, not (ns != val), not (val != ns)]
                out = {"bool": bool(r[0])} if all(x is r[0] for x in r) else {"fail": "==, reflected == and != disagree"}
            else:
                raise SystemExit("unknown op " + kind)
        except SystemExit:
            raise
        except BaseException as e:  # noqa: the property does not distinguish exception classes
            out = {"fail": type(e).__name__}
        stored_ops.append(sop)
        steps.append([out, enc(ns)])
    return {"ops": stored_ops, "steps": steps}


cases = json.load(sys.stdin)["cases"]
print(json.dumps([run(c) for c in cases]))

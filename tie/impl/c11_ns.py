"""Runs histories on the real Namespace. stdin {"cases": [[op,...],...]}; per case returns
{"ops": [op with values in stored form], "steps": [[out, state], ...]}."""
import argparse
import json
import sys

from jsonargparse import Namespace, dict_to_namespace, namespace_to_dict


def build(v):
    (k, x), = v.items()
    if k == "i":
        return x
    if k == "s":
        return x
    if k == "n":
        return None
    if k == "l":
        return [build(e) for e in x]
    if k == "t":
        return tuple(build(e) for e in x)
    if k == "d":
        return {kk: build(vv) for kk, vv in x}
    if k == "ns":
        ns = Namespace()
        for kk, vv in x:
            setattr(ns, kk, build(vv))
        return ns
    raise ValueError(k)


def enc(o):
    if isinstance(o, Namespace):
        return {"ns": [[k, enc(v)] for k, v in vars(o).items()]}
    if isinstance(o, bool):
        return {"s": "<bool %s>" % o}
    if isinstance(o, int):
        return {"i": o}
    if isinstance(o, str):
        return {"s": o}
    if o is None:
        return {"n": 0}
    if isinstance(o, list):
        return {"l": [enc(e) for e in o]}
    if isinstance(o, tuple):
        return {"t": [enc(e) for e in o]}
    if isinstance(o, dict):
        if all(isinstance(k, str) for k in o):
            return {"d": [[k, enc(v)] for k, v in o.items()]}
    return {"s": "<%s>" % type(o).__name__}


def mutable_ids(o, acc):
    if isinstance(o, Namespace):
        acc.add(id(o))
        for v in vars(o).values():
            mutable_ids(v, acc)
    elif isinstance(o, dict):
        acc.add(id(o))
        for v in o.values():
            mutable_ids(v, acc)
    elif isinstance(o, list):
        acc.add(id(o))
        for v in o:
            mutable_ids(v, acc)
    elif isinstance(o, tuple):      # a tuple is immutable, the lists / dicts / Namespaces it holds are not
        for v in o:
            mutable_ids(v, acc)
    return acc


def branch_ids(o, acc):
    """ids of the Namespace / dict nodes reachable through Namespaces and dicts only (what clone / a copy must not share)"""
    if isinstance(o, Namespace):
        acc.add(id(o))
        for v in vars(o).values():
            branch_ids(v, acc)
    elif isinstance(o, dict):
        acc.add(id(o))
        for v in o.values():
            branch_ids(v, acc)
    return acc


def depth(k):
    return len(k.split("."))


def sorted_keys_wrong(ns, br):
    """get_sorted_keys(branches) against items(): the leaf keys (plus, with branches, every proper prefix of a leaf key,
    once), deepest first, keys of equal depth in the order in which items() / the prefix closure produce them"""
    leaves = list(ns.keys())
    got = ns.get_sorted_keys(br)
    exp = list(leaves)
    if br:
        for k in leaves:
            segs = k.split(".")
            for n in range(1, len(segs)):
                pre = ".".join(segs[:n])
                if pre not in exp:
                    exp.append(pre)
    exp.sort(key=lambda k: -depth(k))
    return got != exp or type(got) is not list


def as_flat_wrong(ns, items):
    flat = ns.as_flat()
    if type(flat) is not argparse.Namespace:
        return True
    fl = list(vars(flat).items())
    return [k for k, _ in fl] != [k for k, _ in items] or [id(v) for _, v in fl] != [id(v) for _, v in items]


def run(ops):
    ns = Namespace()
    steps, stored_ops = [], []
    for op in ops:
        kind = op["op"]
        sop = dict(op)
        try:
            if "v" in op:
                val = build(op["v"])
                sop["v"] = enc(val)
            if "dflt" in op:
                dflt = build(op["dflt"])
                sop["dflt"] = enc(dflt)
            if kind == "set":
                ns[op["k"]] = val
                out = {"unit": 0}
            elif kind == "setattr":
                setattr(ns, op["k"], val)
                out = {"unit": 0}
            elif kind == "get":
                got = ns[op["k"]]
                v2, par, leaf = ns.get_value_and_parent(op["k"])     # the same reading, with the parent mapping
                if v2 is not got or not isinstance(par, (Namespace, dict)) or par[leaf] is not got:
                    out = {"fail": "get_value_and_parent differs from ns[key]"}
                else:
                    out = {"val": enc(got)}
            elif kind == "getd":
                out = {"val": enc(ns.get(op["k"], dflt))}
            elif kind == "contains":
                # a key that is not a string is never a member of a nested mapping with string keys
                odd = [p for p in (None, 0, (op["k"],), op["k"].encode()) if (p in ns) is not False]
                out = {"fail": "non-string key reported as member"} if odd else {"bool": op["k"] in ns}
            elif kind == "del":
                del ns[op["k"]]
                out = {"unit": 0}
            elif kind == "pop":
                out = {"val": enc(ns.pop(op["k"], dflt))}
            elif kind in ("updv", "updns"):
                r = ns.update(val, op.get("k"), op["ou"])
                out = {"unit": 0} if r is ns else {"fail": "update did not return self"}
                if kind == "updns" and enc(val) != sop["v"]:
                    out = {"fail": "update modified the source namespace"}
            elif kind == "clone":
                c = ns.clone()
                ok = (c == ns) and enc(c) == enc(ns) and type(c) is Namespace
                ok = ok and not (mutable_ids(c, set()) & mutable_ids(ns, set()))
                out = {"bool": bool(ok)}
            elif kind == "items":
                br = op["br"]
                items = list(ns.items(br))
                keys = list(ns.keys(br))
                vals = list(ns.values(br))
                if keys != [k for k, _ in items] or [id(v) for v in vals] != [id(v) for _, v in items]:
                    out = {"fail": "keys/values are not the projections of items"}
                elif sorted_keys_wrong(ns, br):
                    out = {"fail": "get_sorted_keys is not the keys by descending depth"}
                elif not br and as_flat_wrong(ns, items):
                    out = {"fail": "as_flat is not the flat namespace of items()"}
                else:
                    out = {"items": [[k, enc(v)] for k, v in items]}
            elif kind == "asdict":
                before = enc(ns)
                d = ns.as_dict()
                d2 = namespace_to_dict(ns)      # documented as a COPY converted into a nested dictionary
                if enc(ns) != before:
                    out = {"fail": "as_dict / namespace_to_dict modified the namespace"}
                elif enc(d2) != enc(d) or type(d2) is not dict:
                    out = {"fail": "namespace_to_dict differs from as_dict"}
                elif branch_ids(d2, set()) & branch_ids(ns, set()):
                    out = {"fail": "namespace_to_dict shares a branch with the namespace"}
                else:
                    out = {"val": enc(d)}
            elif kind == "initdict":
                ns = Namespace(val)
                out = {"unit": 0}     # values are stored by reference: a later entry 'b.c' may legitimately write into the caller's dict given for 'b'
            elif kind == "fromdict":
                ns = dict_to_namespace(val)     # "converts": the dictionary given is the caller's and stays as it is
                out = {"unit": 0} if enc(val) == sop["v"] else {"fail": "dict_to_namespace modified its argument"}
            elif kind == "getsteps":
                cur = ns
                for seg in op["k"].split("."):
                    cur = cur[seg]
                out = {"val": enc(cur)}
            elif kind == "eq":
                r = [ns == val, val == ns, not (ns != val), not (val != ns)]
                out = {"bool": bool(r[0])} if all(x is r[0] for x in r) else {"fail": "==, reflected == and != disagree"}
            else:
                raise SystemExit("unknown op " + kind)
        except SystemExit:
            raise
        except BaseException as e:  # noqa: the property does not distinguish exception classes
            out = {"fail": type(e).__name__}
        stored_ops.append(sop)
        steps.append([out, enc(ns)])
    return {"ops": stored_ops, "steps": steps}


cases = json.load(sys.stdin)["cases"]
print(json.dumps([run(c) for c in cases]))

"""C10 runner: cfg = parse(x); validate(cfg); parse_object(cfg.clone()); parse_object(cfg.clone().as_dict()).

stdin : {"cases": [case, ...]}
  case (kind "ns", modelled):  {"kind": "ns", "decls": [{"key": "g.a", "ty": T, "default": V}, ...], "obj": V}
  case (kind "x", spec only):  {"kind": "x", "decls": [{"key": ..., "ty": T, "default": V}], "channel": "object"|"args"|"string",
                                "input": V | [str, ...] | str}
  T: ["str"] ["int"] ["float"] ["bool"] ["none"] ["any"] ["lit", [V...]] ["enum", name, [member...]] ["union", [T...]]
     ["list", T] ["dict", int_keys, T] ["tuple", [T...]] ["tuplevar", T] ["set", T]
     and, for kind "x" only: ["path", mode] ["pathlib"] ["complex"] ["timedelta"] ["range"] ["posint"] ["unit"] ["nnfloat"]
     ["email"] ["data", "D1"|"D2"] ["sub"] (calendar.Calendar)
  V: ["none"] ["bool", b] ["int", n] ["float", repr] ["str", s] ["list", [V]] ["tuple", [V]] ["set", [V]]
     ["dict", [[V, V]]] ["enum", cls, member] ["opaque", kind, repr]
stdout: last line = JSON list of observations
  {"first": ["ok", [V per declared key]] | ["rejected"] | ["crashed", what], "valid": bool, "why": str,
   "again": [same shape, same shape], "oracle": {"jload": [[s, L]], "pval_t": [...], "pval_f": [...], "ikey": [[s, n|null]]}}
  L: ["val", V] | ["yamlerr"] | ["valerr"]
"""
import contextlib
import copy
import dataclasses
import enum
import io
import json
import math
import os
import shutil
import sys
import tempfile
import warnings

warnings.simplefilter("ignore")

from typing import Any, Dict, List, Literal, Optional, Set, Tuple, Union  # noqa: E402

import yaml  # noqa: E402

from jsonargparse import ArgumentError, ArgumentParser, Namespace  # noqa: E402
from jsonargparse._common import parser_context  # noqa: E402
from jsonargparse._loaders_dumpers import get_loader_exceptions, json_or_yaml_load  # noqa: E402
from jsonargparse._util import parse_value_or_config  # noqa: E402


@dataclasses.dataclass
class D1:
    a: int = 1
    b: str = "x"
    c: Optional[List[int]] = None


@dataclasses.dataclass
class D2:
    p: float = 0.5
    q: Optional[D1] = None
    r: Tuple[int, str] = (1, "a")


DATA = {"D1": D1, "D2": D2}

from typing import NotRequired, TypeAliasType, TypedDict  # noqa: E402


class TD1(TypedDict):
    a: int
    b: NotRequired[str]
    c: NotRequired[Optional[List[int]]]


ALIAS = TypeAliasType("ALIAS", List[Union[int, None]])
KNOWN_ENUMS = {"Color": ["red", "green", "blue"], "Sz": ["s", "m", "true"], "W": ["[2, 1]", "a"]}


def enum_class(name, enums, members=None):
    if name not in enums:
        ms = members if members is not None else KNOWN_ENUMS[name]
        enums[name] = enum.Enum(name, {m: i + 1 for i, m in enumerate(ms)})
    return enums[name]


# ---------------------------------------------------------------------------------------------------
def decode(v, enums):
    k = v[0]
    if k == "none":
        return None
    if k in ("bool", "int", "str"):
        return v[1]
    if k == "float":
        return float(v[1])
    if k == "list":
        return [decode(x, enums) for x in v[1]]
    if k == "tuple":
        return tuple(decode(x, enums) for x in v[1])
    if k == "set":
        return {decode(x, enums) for x in v[1]}
    if k == "dict":
        return {decode(a, enums): decode(b, enums) for a, b in v[1]}
    if k == "enum":
        return enum_class(v[1], enums)[v[2]]
    if k == "obj":                      # a Python instance of a registered type: ["obj", kind, text]
        import datetime
        import decimal
        import pathlib
        import uuid

        if v[1] == "timedelta":
            return datetime.timedelta(seconds=int(v[2]))
        if v[1] == "complex":
            return complex(v[2])
        if v[1] == "decimal":
            return decimal.Decimal(v[2])
        if v[1] == "uuid":
            return uuid.UUID(v[2])
        if v[1] == "range":
            return range(*[int(x) for x in v[2].split(",")])
        if v[1] == "pathlib":
            return pathlib.Path(v[2])
    if k == "lazy":                     # lazy_instance default: ["lazy", class name, [[param, V], ...]]
        import c10_classes
        from jsonargparse import lazy_instance

        return lazy_instance(getattr(c10_classes, v[1]), **{a: decode(b, enums) for a, b in v[2]})
    raise ValueError("cannot decode %r" % (v,))


def set_key(e):
    k = e[0]
    order = {"none": 0, "bool": 1, "int": 1, "float": 1, "str": 2}.get(k, 3)
    if order == 1:
        x = e[1] if k != "float" else float(e[1])
        return (1, float(x) if not (isinstance(x, float) and math.isnan(x)) else 0.0, json.dumps(e))
    return (order, 0.0, json.dumps(e))


def encode(v, seen=False):
    """seen=True: sets are listed in their iteration order (what the implementation sees), else canonically"""
    if v is None:
        return ["none"]
    if isinstance(v, bool):
        return ["bool", v]
    if isinstance(v, enum.Enum):
        return ["enum", type(v).__name__, v.name]
    if type(v) is int:
        return ["int", v]
    if type(v) is float:
        if math.isnan(v):
            return ["float", "nan"]
        if math.isinf(v):
            return ["float", "inf" if v > 0 else "-inf"]
        return ["float", repr(v)]
    if type(v) is str:
        return ["str", v]
    if type(v) is list:
        return ["list", [encode(x, seen) for x in v]]
    if type(v) is tuple:
        return ["tuple", [encode(x, seen) for x in v]]
    if type(v) in (set, frozenset):
        return ["set", [encode(x, seen) for x in v] if seen else sorted((encode(x) for x in v), key=set_key)]
    if type(v) is dict:
        return ["dict", [[encode(a, seen), encode(b, seen)] for a, b in v.items()]]
    if isinstance(v, Namespace):
        return ["dict", [[["str", a], encode(b)] for a, b in v.__dict__.items()]]
    if isinstance(v, BaseException):
        return ["opaque", "exc", ""]
    if isinstance(v, type) or type(v).__name__ == "function":
        return ["opaque", "type" if isinstance(v, type) else "function", "%s.%s" % (v.__module__, v.__qualname__)]
    if type(v).__name__ == "OrderedDict":
        return ["opaque", "OrderedDict", json.dumps(["dict", [[encode(a, seen), encode(b, seen)] for a, b in v.items()]])]
    if type(v).__name__ == "mappingproxy":
        return ["opaque", "mappingproxy", json.dumps(["dict", [[encode(a, seen), encode(b, seen)] for a, b in v.items()]])]
    if type(v).__name__ == "Decimal" and type(v).__module__ in ("decimal", "_decimal", "_pydecimal"):
        # Decimal('1.50') == Decimal('1.5'): the value, not the exponent of its representation
        return ["opaque", "Decimal", "nan" if v.is_nan() else format(v.normalize(), "f") if v.is_finite() else str(v)]
    if hasattr(v, "relative") and hasattr(v, "cwd") and callable(v):          # jsonargparse Path
        return ["opaque", type(v).__name__, "%s -> %s" % (v.relative, v())]
    return ["opaque", type(v).__name__, repr(v)]


def build_type(t, enums, scratch):
    k = t[0]
    if k == "str":
        return str
    if k == "int":
        return int
    if k == "float":
        return float
    if k == "bool":
        return bool
    if k == "none":
        return type(None)
    if k == "any":
        return Any
    if k == "lit":
        return Literal[tuple(decode(x, enums) for x in t[1])]
    if k == "enum":
        return enum_class(t[1], enums, t[2])
    if k == "union":
        return Union[tuple(build_type(x, enums, scratch) for x in t[1])]
    if k == "list":
        return List[build_type(t[1], enums, scratch)]
    if k == "dict":
        return Dict[int if t[1] else str, build_type(t[2], enums, scratch)]
    if k == "tuple":
        return Tuple[tuple(build_type(x, enums, scratch) for x in t[1])]
    if k == "tuplevar":
        return Tuple[build_type(t[1], enums, scratch), ...]
    if k == "set":
        return Set[build_type(t[1], enums, scratch)]
    # ---- kind "x" only
    import jsonargparse.typing as jt

    if k == "path":
        return jt.path_type(t[1])
    if k == "pathlib":
        import pathlib

        return pathlib.Path
    if k == "complex":
        return complex
    if k == "timedelta":
        import datetime

        return datetime.timedelta
    if k == "range":
        return range
    if k == "posint":
        return jt.PositiveInt
    if k == "unit":
        return jt.ClosedUnitInterval
    if k == "nnfloat":
        return jt.NonNegativeFloat
    if k == "email":
        return jt.Email
    if k == "data":
        return DATA[t[1]]
    if k == "sub":
        if len(t) > 1:
            import c10_classes

            return getattr(c10_classes, t[1])
        import calendar

        return calendar.Calendar
    if k == "decimal":
        import decimal

        return decimal.Decimal
    if k == "annot":
        from typing import Annotated

        return Annotated[int, "unit"]
    if k == "annotv":
        from typing import Annotated

        import pydantic

        return Annotated[int, pydantic.Field(gt=0)]
    if k == "type":
        from typing import Type

        import c10_classes

        return Type[getattr(c10_classes, t[1])]
    if k == "odict":
        from typing import OrderedDict

        return OrderedDict[str, build_type(t[1], enums, scratch)]
    if k == "mproxy":
        from types import MappingProxyType

        return MappingProxyType[str, build_type(t[1], enums, scratch)]
    if k == "tdict":
        return TD1
    if k == "alias":
        return ALIAS
    if k == "callable":
        from typing import Callable

        return Callable[[int], int]
    if k == "uuid":
        import uuid

        return uuid.UUID
    raise ValueError("unknown type %r" % (t,))


# ---------------------------------------------------------------------------------------------------
def strings_of(v, out):
    """every str inside a tagged value, keys included"""
    k = v[0]
    if k == "str":
        out.add(v[1])
    elif k in ("list", "tuple", "set"):
        for x in v[1]:
            strings_of(x, out)
    elif k == "dict":
        for a, b in v[1]:
            strings_of(a, out)
            strings_of(b, out)


def lres(fn):
    try:
        return ["val", encode(fn())]
    except get_loader_exceptions():
        return ["yamlerr"]
    except yaml.YAMLError:
        return ["yamlerr"]
    except Exception:
        return ["valerr"]


def make_oracle(seeds):
    todo, seen = set(seeds), set()
    orc = {"jload": [], "pval_t": [], "pval_f": [], "ikey": []}
    depth = 0
    while todo and depth < 4:
        nxt = set()
        for s in sorted(todo):
            seen.add(s)
            with parser_context(load_value_mode="yaml"):
                rs = [lres(lambda: json_or_yaml_load(s)),
                      lres(lambda: parse_value_or_config(s, enable_path=False, simple_types=True)[0]),
                      lres(lambda: parse_value_or_config(s, enable_path=False, simple_types=False)[0])]
            orc["jload"].append([s, rs[0]])
            orc["pval_t"].append([s, rs[1]])
            orc["pval_f"].append([s, rs[2]])
            try:
                orc["ikey"].append([s, int(s)])
            except Exception:
                orc["ikey"].append([s, None])
            for r in rs:
                if r[0] == "val":
                    strings_of(r[1], nxt)
        todo = nxt - seen
        depth += 1
    return orc


# ---------------------------------------------------------------------------------------------------
def snapshot(cfg, keys):
    return [encode(cfg[k]) for k in keys]


def attempt(fn, keys):
    try:
        with contextlib.redirect_stderr(io.StringIO()), contextlib.redirect_stdout(io.StringIO()):
            cfg = fn()
    except (ArgumentError, SystemExit):
        return ["rejected"], None
    except BaseException as ex:  # noqa: B902
        return ["crashed", "%s: %s" % (type(ex).__name__, str(ex)[:200])], None
    try:
        return ["ok", snapshot(cfg, keys)], cfg
    except BaseException as ex:  # noqa: B902
        return ["crashed", "snapshot %s: %s" % (type(ex).__name__, str(ex)[:200])], None


def dump_leg(p, cfg, keys):
    """dump(cfg) -> parse_string -> the configuration read back, and its dump again"""
    res = {"reparsed": ["crashed", "not run"], "text1": None, "text2": None}
    try:
        with contextlib.redirect_stderr(io.StringIO()):
            res["text1"] = p.dump(cfg)          # the caller hands over a clone and looks at it afterwards
    except BaseException as ex:  # noqa: B902
        res["reparsed"] = ["crashed", "dump: %s: %s" % (type(ex).__name__, str(ex)[:200])]
        return res
    box = {}

    def again():
        box["cfg"] = p.parse_string(res["text1"])
        return box["cfg"]

    res["reparsed"] = attempt(again, keys)[0]
    if "cfg" in box:
        try:
            with contextlib.redirect_stderr(io.StringIO()):
                res["text2"] = p.dump(box["cfg"])
        except BaseException as ex:  # noqa: B902
            res["text2"] = None
            res["why2"] = "dump again: %s: %s" % (type(ex).__name__, str(ex)[:200])
    return res


def build_parser(case, enums, scratch, with_cfg):
    from jsonargparse import ActionConfigFile

    p = ArgumentParser(exit_on_error=False)
    keys, seeds, seen = [], set(), {"defaults": []}
    if with_cfg:
        p.add_argument("--cfg", action=ActionConfigFile)
    for d in case["decls"]:
        ty = build_type(d["ty"], enums, scratch)
        kw = {}
        if d.get("default", ["none"]) != ["none"]:
            kw["default"] = decode(d["default"], enums)
            strings_of(d["default"], seeds)
            seen["defaults"].append(encode(kw["default"], True))
        else:
            seen["defaults"].append(["none"])
        if d.get("default", ["none"])[0] == "lazy":
            seen["defaults"][-1] = ["none"]
        if d.get("enable_path"):
            kw["enable_path"] = True
        if d.get("nargs"):
            kw["nargs"] = d["nargs"]
        if d.get("required"):
            kw["required"] = True
        act = p.add_argument("--" + d["key"], type=ty, **kw)
        if "default" in kw and d["default"][0] != "lazy":
            # the default as the parser keeps it (ActionTypeHint.normalize_default: an Enum member becomes its name)
            kept = encode(act.default, True)
            seen["defaults"][-1] = kept
            strings_of(kept, seeds)
        keys.append(d["key"])
    return p, keys, seeds, seen


def run_case(case, scratch):
    enums = {}
    for name, content in (case.get("files") or {}).items():
        os.makedirs(os.path.dirname(name) or ".", exist_ok=True)
        with open(name, "w") as f:
            f.write(content)
    try:
        return run_case_(case, scratch, enums)
    finally:
        for name in case.get("files") or {}:
            with contextlib.suppress(OSError):
                os.remove(name)


# ---- calls that the library REJECTS, each at a different stage: they must leave nothing behind -------------------------
def fault_call(name, p, case, scratch):
    """one rejected call in the same process; `p` is the parser under test (used by the same_* faults)"""
    from jsonargparse import ActionConfigFile

    q = ArgumentParser(exit_on_error=False)
    if name == "bad_value":                         # a value its type refuses (argv)
        q.add_argument("--n", type=int)
        return q.parse_args(["--n=x"])
    if name == "unknown_key":                       # a key nobody declared (object)
        q.add_argument("--n", type=int)
        return q.parse_object({"zz": 1})
    if name == "cfg_missing":                       # a config file that does not exist
        q.add_argument("--cfg", action=ActionConfigFile)
        q.add_argument("--n", type=int)
        return q.parse_args(["--n=1", "--cfg=missing_file.yaml"])
    if name == "required_missing":                  # refused by check_required, after all values were accepted
        q.add_argument("--r", type=int, required=True)
        q.add_argument("--d", type=Dict[str, D1], default={})
        return q.parse_args(['--d={"a": {"a": 2}}'])
    if name == "sub_default":                       # refused while a selected class's own defaults are applied
        import c10_classes

        q.add_argument("--w", type=Optional[c10_classes.Worker], default=None)
        return q.parse_args(["--w=BrokenWorker"])
    if name == "sub_default_object":
        import c10_classes

        q.add_argument("--w", type=c10_classes.Worker)
        return q.parse_object({"w": {"class_path": "c10_classes.BrokenWorker"}})
    if name == "sub_default_string":
        import c10_classes

        q.add_argument("--w", type=Optional[c10_classes.Worker], default=None)
        return q.parse_string("w: {class_path: c10_classes.BrokenWorker}\n")
    if name == "sub_default_in_list":
        import c10_classes

        q.add_argument("--ws", type=List[c10_classes.Worker], default=[])
        return q.parse_args(['--ws=[{"class_path": "c10_classes.Worker"}, {"class_path": "c10_classes.BrokenWorker"}]'])
    if name == "dataclass_field":                   # refused inside the nested parser of a dataclass item
        q.add_argument("--l", type=List[D1], default=[])
        return q.parse_object({"l": [{"a": 1}, {"a": "x"}]})
    if name == "string_broken":                     # text that does not load
        q.add_argument("--n", type=int)
        return q.parse_string("n: [1, 2\n")
    if name == "same_unknown_key":                  # the parser under test itself refuses an object
        return p.parse_object({"no_such_option_zz": 1})
    if name == "same_bad_string":
        return p.parse_string("no_such_option_zz: {a: [1\n")
    if name == "same_validate":                     # validate of a foreign namespace
        return p.validate(Namespace(no_such_option_zz=1))
    raise ValueError("unknown fault %r" % (name,))


def run_faults(names, p, case, scratch):
    for name in names:
        try:
            with contextlib.redirect_stderr(io.StringIO()), contextlib.redirect_stdout(io.StringIO()):
                fault_call(name, p, case, scratch)
        except ValueError as ex:
            if str(ex).startswith("unknown fault"):
                raise
        except BaseException:  # noqa: B902
            pass


def run_case_(case, scratch, enums):
    if case.get("pre") is not None:
        # an earlier, FAILED call in the same process (another parser of the same shape): it must leave nothing behind
        try:
            with contextlib.redirect_stderr(io.StringIO()), contextlib.redirect_stdout(io.StringIO()):
                build_parser(case, {}, scratch, True)[0].parse_args(list(case["pre"]))
        except BaseException:  # noqa: B902
            pass
    p, keys, seeds, seen = build_parser(case, enums, scratch, case.get("channel") == "cfgfile")
    if case["kind"] in ("ns", "nl"):
        obj = copy.deepcopy(decode(case["obj"], enums))      # the very object handed over: its sets' iteration order is what counts
        seen["obj"] = encode(obj, True)
        strings_of(case["obj"], seeds)
        first, cfg = attempt(lambda: p.parse_object(obj), keys)
    else:
        ch, inp = case["channel"], case["input"]
        if ch == "object":
            obj = decode(inp, enums)
            first, cfg = attempt(lambda: p.parse_object(copy.deepcopy(obj)), keys)
        elif ch in ("args", "cfgfile"):
            first, cfg = attempt(lambda: p.parse_args(list(inp)), keys)
        else:
            first, cfg = attempt(lambda: p.parse_string(inp), keys)
    obs = {"first": first, "valid": True, "why": "", "again": []}
    if cfg is not None and case.get("mid"):
        # between the parse and the checks the same process has other calls REJECTED (a parse result is a fixed point whatever
        # else the library was asked to do in between)
        run_faults(case["mid"], p, case, scratch)
    if cfg is not None:
        # every leg gets its own clone and must leave it as it was ("re-parsing or validating changes nothing")
        def untouched(c):
            try:
                return snapshot(c, keys) == first[1]
            except BaseException:  # noqa: B902
                return False

        c0 = cfg.clone()
        try:
            with contextlib.redirect_stderr(io.StringIO()):
                p.validate(c0)
        except BaseException as ex:  # noqa: B902
            obs["valid"] = False
            obs["why"] = "%s: %s" % (type(ex).__name__, str(ex)[:200])
        if obs["valid"] and not untouched(c0):
            obs["valid"] = False
            obs["why"] = "validate(cfg) changed cfg in place"
        c1 = cfg.clone()
        a1 = attempt(lambda: p.parse_object(c1), keys)[0]
        obs["again"].append(a1 if untouched(c1) else ["crashed", "parse_object(cfg) changed cfg in place"])
        obs["again"].append(attempt(lambda: p.parse_object(cfg.clone().as_dict()), keys)[0])
        if case["kind"] == "x":
            c2 = cfg.clone()
            obs["dump"] = dump_leg(p, c2, keys)
            if not untouched(c2):
                obs["dump"]["reparsed"] = ["crashed", "dump(cfg) changed cfg in place"]
    if case["kind"] in ("ns", "nl"):
        obs["oracle"] = make_oracle(seeds)
        obs["seen"] = seen
    return obs


def run_forked(case, scratch):
    r, w = os.pipe()
    pid = os.fork()
    if pid == 0:
        code = 0
        try:
            os.close(r)
            data = json.dumps(run_case(case, scratch)).encode()
            with os.fdopen(w, "wb") as f:
                f.write(data)
        except BaseException:  # noqa: B902
            code = 1
        finally:
            os._exit(code)
    os.close(w)
    with os.fdopen(r, "rb") as f:
        data = f.read()
    os.waitpid(pid, 0)
    if not data:
        raise RuntimeError("forked case produced no observation")
    return json.loads(data)


def main():
    payload = json.load(sys.stdin)
    scratch = tempfile.mkdtemp(prefix="jv_c10_")
    cwd = os.getcwd()
    out = []
    try:
        os.chdir(scratch)
        os.mkdir("dir1")
        for name in ("f1.txt", "f2.yaml", "dir1/f3.txt"):
            with open(name, "w") as f:
                f.write("x: 1\n")
        for case in payload["cases"]:
            try:
                # a case with a call history runs in a forked child: whatever a rejected call leaves behind must show in THIS
                # case and must not mask (or fake) anything in the cases that follow in the same runner process
                out.append(run_forked(case, scratch) if (case.get("mid") or case.get("pre") is not None) else run_case(case, scratch))
            except BaseException as ex:  # noqa: B902
                out.append({"first": ["crashed", "harness %s: %s" % (type(ex).__name__, str(ex)[:300])], "valid": True,
                            "why": "", "again": [], "oracle": {"jload": [], "pval_t": [], "pval_f": [], "ikey": []},
                            "seen": {"defaults": [d.get("default", ["none"]) for d in case["decls"]], "obj": case.get("obj")}})
    finally:
        os.chdir(cwd)
        shutil.rmtree(scratch, ignore_errors=True)
    sys.stdout.write("\n" + json.dumps(out) + "\n")


if __name__ == "__main__":
    main()

"""Component classes used by the C09 history runner (harness code, not part of jsonargparse)."""


class Base:
    def __init__(self, a: int = 1):
        self.a = a


class SubA(Base):
    def __init__(self, a: int = 1, c: int = 7):
        super().__init__(a)
        self.c = c


class SubB(Base):
    def __init__(self, a: int = 2, b: str = "x"):
        super().__init__(a)
        self.b = b


class Fac:
    """A callable class that is NOT a Base: acceptable for Callable[[int], Base], not for Base."""

    def __init__(self, a: int = 4, z: int = 5):
        self.a, self.z = a, z

    def __call__(self, x: int) -> Base:
        return Base(self.a + x)


import dataclasses  # noqa: E402
from typing import Callable, Optional  # noqa: E402


@dataclasses.dataclass
class Data:
    a: int = 0
    b: int = 0


# Holders: the class-typed / Callable-typed / dataclass-typed options of a declaration added from a SIGNATURE
# (parser.add_class_arguments(Holder), top level), so that action.sub_add_kwargs is the non-empty dict jsonargparse
# hands to adapt_typehints by reference.  One class per combination, written out (source must be inspectable).
class H_m:
    def __init__(self, model: Optional[Base] = None):
        pass


class H_c:
    def __init__(self, cb: Optional[Callable[[int], Base]] = None):
        pass


class H_mc:
    def __init__(self, model: Optional[Base] = None, cb: Optional[Callable[[int], Base]] = None):
        pass


class H_d:
    def __init__(self, d: Optional[Data] = None):
        pass


class H_md:
    def __init__(self, model: Optional[Base] = None, d: Optional[Data] = None):
        pass


class H_cd:
    def __init__(self, cb: Optional[Callable[[int], Base]] = None, d: Optional[Data] = None):
        pass


class H_mcd:
    def __init__(
        self, model: Optional[Base] = None, cb: Optional[Callable[[int], Base]] = None, d: Optional[Data] = None
    ):
        pass


HOLDERS = {"m": H_m, "c": H_c, "mc": H_mc, "d": H_d, "md": H_md, "cd": H_cd, "mcd": H_mcd}


# the link family: subclasses that annotate the linked init_arg o differently (mapping vs dataclass)
class LBase:
    pass


class WD(LBase):
    def __init__(self, o: dict, a: int = 1):
        self.o, self.a = o, a


class WO(LBase):
    def __init__(self, o: Data, a: int = 1):
        self.o, self.a = o, a

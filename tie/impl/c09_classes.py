"""Component classes used by the C09 history runner (harness code, not part of jsonargparse)."""


class Base:
    def __init__(self, a: int = 1):
        self.a = a


class SubA(Base):
    def __init__(self, a: int = 1, c: int = 7):
        super().__init__(a)
        self.c = c


class SubB(Base):
    def __init__(self, a: int = 2, b: str = "x"):
        super().__init__(a)
        self.b = b

"""Importable classes for C10's subclass-typed options (class_path = c10_classes.<Name>)."""
from typing import Optional

from jsonargparse.typing import PositiveInt


class Net:
    def __init__(self, width: int = 8):
        self.width = width


class ConvNet(Net):
    def __init__(self, kernel: int = 3, stride: Optional[int] = None, **kwargs):
        super().__init__(**kwargs)
        self.kernel = kernel
        self.stride = stride


class MlpNet(Net):
    def __init__(self, hidden: int = 64, dropout: Optional[float] = None, **kwargs):
        super().__init__(**kwargs)
        self.hidden = hidden
        self.dropout = dropout


class Opt:
    def __init__(self, lr: float = 0.1):
        self.lr = lr


class Sgd(Opt):
    def __init__(self, momentum: float = 0.0, nesterov: Optional[bool] = None, **kwargs):
        super().__init__(**kwargs)
        self.momentum = momentum
        self.nesterov = nesterov


class Adam(Opt):
    def __init__(self, betas: tuple = (0.9, 0.99), eps: float = 1e-8, decay: Optional[float] = None, **kwargs):
        super().__init__(**kwargs)
        self.decay = decay
        self.betas = betas
        self.eps = eps


class Plug:
    def __init__(self, x: int = 0):
        self.x = x


class Legacy(Plug):
    """accepts arbitrary extra keyword arguments and keeps them (they travel as dict_kwargs)"""

    def __init__(self, a: int = 1, **kwargs):
        super().__init__()
        self.a = a
        self.extra = kwargs


class Modern(Plug):
    def __init__(self, b: int = 2, **kwargs):
        super().__init__()
        self.b = b
        self.extra = kwargs


class Strict(Plug):
    def __init__(self, c: int = 3):
        super().__init__()
        self.c = c


class Worker:
    def __init__(self, seed: int = 0):
        self.seed = seed


class BrokenWorker(Worker):
    """its own default does not satisfy its annotation: selecting it is rejected while the class's defaults are applied"""

    def __init__(self, workers: PositiveInt = 0):
        super().__init__()
        self.workers = workers



def double(x: int) -> int:
    return 2 * x


def halve(x: int) -> int:
    return x // 2

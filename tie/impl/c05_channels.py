"""C05 runner: one logical setting (key path, type hint, value) pushed through every input channel of a real
jsonargparse parser, under every parser_mode.  JSON in (stdin): {"cases": [case]}, JSON out (last line): [obs].

case = {"ty": type tree, "key": [names], "hyphen": bool, "prefix": "APP"|"my-app"|True|False, "val": tagged value,
        "text": top-level text, "docs": {name: document text}, "modes": [...]}
obs  = {"chan": {"<mode>/<channel>": outcome}, "loaded": {"<mode>/<doc>": loaded leaf or error},
        "oracle": [[string, yaml_load answer]], "envvar": name the implementation derives}
outcome = ["ok", tagged value] | ["rejected"] | ["crash", exception class name]
Nothing here decides anything: verdicts are computed in Coq."""
import contextlib
import contextvars
import enum
import io
import json
import math
import os
import shutil
import sys
import tempfile
import typing
import warnings

warnings.simplefilter("ignore")

from jsonargparse import ActionConfigFile, ArgumentError, ArgumentParser, Namespace  # noqa: E402
from jsonargparse import _loaders_dumpers as ld  # noqa: E402

ENUMS = {}


def enum_cls(members):
    key = tuple(members)
    if key not in ENUMS:
        ENUMS[key] = enum.Enum("E", {m: i + 1 for i, m in enumerate(members)})
    return ENUMS[key]


def py_lit(l):
    return None if l is None else l


def build_type(t):
    k = t[0]
    if k == "str":
        return str
    if k == "int":
        return int
    if k == "float":
        return float
    if k == "bool":
        return bool
    if k == "none":
        return type(None)
    if k == "any":
        return typing.Any
    if k == "lit":
        return typing.Literal[tuple(py_lit(x) for x in t[1])]
    if k == "enum":
        return enum_cls(t[1])
    if k == "union":
        return typing.Union[tuple(build_type(x) for x in t[1])]
    if k == "list":
        return typing.List[build_type(t[1])]
    if k == "dict":
        return typing.Dict[int if t[1] else str, build_type(t[2])]
    if k == "tuple":
        return typing.Tuple[tuple(build_type(x) for x in t[1])]
    if k == "tuplevar":
        return typing.Tuple[build_type(t[1]), ...]
    if k == "set":
        return typing.Set[build_type(t[1])]
    raise ValueError("type tree %r" % (t,))


def untag(v):
    if isinstance(v, dict):
        if "f" in v:
            return float(v["f"])
        if "i" in v:
            return int(v["i"])
        if "l" in v:
            return [untag(x) for x in v["l"]]
        if "d" in v:
            return {k: untag(x) for k, x in v["d"]}
        raise ValueError(v)
    return v


def set_order(x):
    if isinstance(x, bool):
        return (2, 0, "")
    if isinstance(x, int):
        return (0, x, "")
    if isinstance(x, str):
        return (1, 0, [ord(c) for c in x])
    return (2, 0, "")


def tag(v):
    if v is None or isinstance(v, (bool, str)):
        return v
    if isinstance(v, int):
        return {"i": str(v)}
    if isinstance(v, float):
        if math.isnan(v):
            return {"f": "nan"}
        if math.isinf(v):
            return {"f": "inf" if v > 0 else "-inf"}
        return {"f": repr(v)}
    if isinstance(v, list):
        return {"l": [tag(x) for x in v]}
    if isinstance(v, tuple):
        return {"t": [tag(x) for x in v]}
    if isinstance(v, (set, frozenset)):
        return {"s": [tag(x) for x in sorted(v, key=set_order)]}
    if isinstance(v, dict):
        return {"d": [[tag(k), tag(x)] for k, x in v.items()]}
    if isinstance(v, enum.Enum):
        return {"e": [type(v).__name__, v.name]}
    if isinstance(v, Namespace):
        return {"o": ["Namespace", repr(v)]}
    return {"o": [type(v).__name__, repr(v)]}


def make_parser(case, T, mode, dcf=None):
    kw = {}
    if case["prefix"] is True:
        kw["prog"] = "tool.py"
    p = ArgumentParser(exit_on_error=False, env_prefix=case["prefix"], parser_mode=mode, default_config_files=dcf, **kw)
    p.add_argument("--cfg", action=ActionConfigFile)
    p.add_argument("--other", type=int, default=3)
    opt = ".".join(case["key"])
    if case["hyphen"]:
        opt = opt.replace("_", "-")
    p.add_argument("--" + opt, type=T, **({"enable_path": True} if case.get("enable_path") else {}))
    if case.get("mixed"):
        p.add_argument("--%s.zz.deep" % case["key"][0], type=int)
    return p


SIBKEY = [None]   # a second declared key two levels below the setting's root branch (cases with a mixed-spelling document)


def outcome(fn, dest, sib_expect=None):
    try:
        with contextlib.redirect_stderr(io.StringIO()), contextlib.redirect_stdout(io.StringIO()):
            cfg = fn()
        try:
            val = cfg[dest]
        except KeyError:
            return ["crash", "KeyMissing"]
        rest = {k for k in cfg.keys() if k not in (dest, "cfg", "other", "__default_config__", SIBKEY[0])}
        if rest or cfg["other"] != 3:
            return ["crash", "OtherKeysTouched"]
        if SIBKEY[0] and cfg.get(SIBKEY[0]) != sib_expect:
            return ["crash", "SiblingKeyIs%r" % (cfg.get(SIBKEY[0]),)]
        return ["ok", tag(val)]
    except ArgumentError:
        return ["rejected"]
    except SystemExit as e:
        return ["crash", "SystemExit%s" % e.code]
    except BaseException as e:  # anything else escaping a parse method
        return ["crash", type(e).__name__]


def load_answer(fn, s):
    """what a loader answers for a text, in the vocabulary of Model/Ty.v's lres"""
    import yaml

    try:
        with contextlib.redirect_stderr(io.StringIO()):
            return ["val", tag(fn(s))]
    except yaml.YAMLError:
        return ["yamlerr"]
    except json.JSONDecodeError:
        return ["yamlerr"]
    except ValueError:
        return ["valerr"]
    except RecursionError:
        return ["other", "RecursionError"]
    except Exception as e:
        return ["other", type(e).__name__]


def mode_answer(mode, s):
    """what loaders[mode] answers for a text; an exception is classified by the implementation's own list of the mode's
    loader exceptions (those every caller catches and falls back from), any other error is "valerr"/"other" """
    try:
        with contextlib.redirect_stderr(io.StringIO()):
            return ["val", tag(ld.loaders[mode](s))]
    except ld.get_loader_exceptions(mode):
        return ["yamlerr"]
    except ValueError:
        return ["valerr"]
    except RecursionError:
        return ["other", "RecursionError"]
    except Exception as e:
        return ["other", type(e).__name__]


def oracles(strs, modes):
    oracle, oracle_oc, seen = [], [], set()
    for s in strs:
        if s not in seen:
            seen.add(s)
            oracle.append([s, load_answer(ld.yaml_load, s)])
            if "omegaconf" in modes and "omegaconf" in ld.loaders:
                oracle_oc.append([s, mode_answer("omegaconf", s)])
    return oracle, oracle_oc


def strings_of(v, acc):
    if isinstance(v, str):
        acc.append(v)
    elif isinstance(v, (list, tuple, set)):
        for x in v:
            strings_of(x, acc)
    elif isinstance(v, dict):
        for k, x in v.items():
            strings_of(k, acc)
            strings_of(x, acc)


def dig(obj, key):
    """leaf addressed by key path in a loaded document (nested or dotted spelling)"""
    dotted = ".".join(key)
    if isinstance(obj, dict) and dotted in obj:
        return obj[dotted]
    for k in key:
        if not isinstance(obj, dict) or k not in obj:
            raise KeyError(dotted)
        obj = obj[k]
    return obj


def run_case(case, tmp):
    SIBKEY[0] = case["key"][0] + ".zz.deep" if case.get("mixed") else None
    for f in typing._cleanups:   # typing caches List[Union[int, str]] == List[Union[str, int]]: member order matters here
        f()
    T = build_type(case["ty"])
    key = case["key"]
    dest = ".".join(key)
    text = case["text"]
    val = untag(case["val"])
    docs = case["docs"]
    chan, loaded = {}, {}
    opt = "--" + (dest.replace("_", "-") if case["hyphen"] else dest)
    nested = val
    for k in reversed(key):
        nested = {k: nested}
    envvar = None
    files = {}
    for name, doc in docs.items():
        path = os.path.join(tmp, name + (".json" if name.startswith("json") else ".yaml"))
        with open(path, "w") as f:
            f.write(doc)
        files[name] = path
    for mode in case["modes"]:
        p = make_parser(case, T, mode)
        # the documented naming rule, computed here and not asked from the implementation:
        # [PREFIX_]KEY upper-cased, '.' -> '__', '-' in the prefix -> '_'; prefix True = program name without extension
        pre = {True: "tool", False: None}.get(case["prefix"], case["prefix"]) if isinstance(case["prefix"], bool) else case["prefix"]
        pre = "" if pre is None else pre.replace("-", "_") + "_"
        envvar = (pre + dest.replace(".", "__")).upper()
        cfgvar = (pre + "cfg").upper()
        m = mode + "/"
        full = mode == "yaml" or case.get("full")
        chan[m + "argv_eq"] = outcome(lambda: p.parse_args([opt + "=" + text]), dest)
        if not text.startswith("-") and full:
            chan[m + "argv_sp"] = outcome(lambda: p.parse_args([opt, text]), dest)
        if case.get("items"):
            # the Dict[str, T] setting entry by entry: --key.k=TEXT ... (nested keys below a typed option)
            # (spelled with the destination name: below an option declared with hyphens the nested form is only
            # recognised as --my_key.k, see notes/C05.md)
            items = case["items"]
            chan[m + "argv_nested_eq"] = outcome(lambda: p.parse_args(["--%s.%s=%s" % (dest, k, t) for k, t in items]), dest)
            if full and not any(t.startswith("-") for _, t in items):
                chan[m + "argv_nested_sp"] = outcome(lambda: p.parse_args([x for k, t in items for x in ("--%s.%s" % (dest, k), t)]), dest)
        chan[m + "object_nested"] = outcome(lambda: p.parse_object(json.loads(json.dumps(nested))), dest)
        if case.get("mixed"):
            # one mapping, two spellings under the same branch: the setting as a nested mapping first, then a dotted key two
            # levels below the branch that opens a missing intermediate one
            mixed_obj = json.loads(docs["json_mixed"])
            chan[m + "object_mixed"] = outcome(lambda: p.parse_object(mixed_obj), dest, sib_expect=4)
        chan[m + "env"] = outcome(lambda: p.parse_env({envvar: text}), dest)
        if full:
            chan[m + "object_dotted"] = outcome(lambda: p.parse_object({dest: json.loads(json.dumps(val))}), dest)
            os.environ[envvar] = text
            try:
                chan[m + "env_args"] = outcome(lambda: p.parse_args([], env=True), dest)
            finally:
                del os.environ[envvar]
        for name, doc in docs.items():
            if mode == "json" and not name.startswith("json"):
                continue   # a YAML block document is not a setting one can hand to a json-mode parser
            sx = 4 if name == "json_mixed" else None
            chan[m + "string:" + name] = outcome(lambda: p.parse_string(doc), dest, sib_expect=sx)
            chan[m + "cfgfile:" + name] = outcome(lambda: p.parse_args(["--cfg", files[name]]), dest, sib_expect=sx)
            if full:
                chan[m + "path:" + name] = outcome(lambda: p.parse_path(files[name]), dest, sib_expect=sx)
                chan[m + "cfgstr:" + name] = outcome(lambda: p.parse_args(["--cfg=" + doc]), dest, sib_expect=sx)
                chan[m + "cfgenv:" + name] = outcome(lambda: p.parse_env({cfgvar: doc}), dest, sib_expect=sx)
                pd = make_parser(case, T, mode, dcf=[files[name]])
                chan[m + "default_config:" + name] = outcome(lambda: pd.parse_args([]), dest, sib_expect=sx)
            ans = load_answer(ld.loaders[mode], doc)
            if ans[0] == "val":
                try:
                    ans = ["val", tag(dig(untag_loaded(ans[1]), key))]
                except KeyError:
                    ans = ["other", "KeyMissing"]
            loaded[m + name] = ans
    if case.get("after"):
        # the same setting once more (yaml mode) after ANOTHER parser's parse_args was rejected while applying a --cfg
        # value, the key itself having been set by an accepted option before: nothing of that call may survive
        pz = make_parser(case, T, "yaml")
        poison = outcome(lambda: pz.parse_args([opt + "=" + text, "--cfg", case["after"]]), dest)
        chan["yaml/poison"] = poison
        p = make_parser(case, T, "yaml")
        name = "json_nested"
        chan["yaml/argv_eq@after"] = outcome(lambda: p.parse_args([opt + "=" + text]), dest)
        chan["yaml/object_nested@after"] = outcome(lambda: p.parse_object(json.loads(json.dumps(nested))), dest)
        chan["yaml/string@after:" + name] = outcome(lambda: make_parser(case, T, "yaml").parse_string(docs[name]), dest)
        chan["yaml/path@after:" + name] = outcome(lambda: make_parser(case, T, "yaml").parse_path(files[name]), dest)
        chan["yaml/cfgfile@after:" + name] = outcome(lambda: make_parser(case, T, "yaml").parse_args(["--cfg", files[name]]), dest)
    strs = [text] + [t for _, t in (case.get("items") or [])]
    strings_of(val, strs)
    oracle, oracle_oc = oracles(strs, case["modes"])
    from jsonargparse._namespace import clash_names

    return {"chan": chan, "loaded": loaded, "oracle": oracle, "oracle_oc": oracle_oc, "envvar": envvar, "clash": any(k in clash_names for k in key)}


# ---------------------------------------------------------------------------------------------------------------------
# history family: keys whose parsing consults the previous value of the key
# ---------------------------------------------------------------------------------------------------------------------
def hist_parser(mode):
    import calendar
    from dataclasses import dataclass
    from typing import Dict, List, Optional

    global HOpt
    if "HOpt" not in globals():
        @dataclass
        class HOpt:
            lr: int = 1
            name: str = "sgd"

    p = ArgumentParser(exit_on_error=False, parser_mode=mode, env_prefix="APP")
    p.add_argument("--cfg", action=ActionConfigFile)
    p.add_argument("--opt", type=HOpt)
    p.add_argument("--opts", type=List[HOpt])
    p.add_argument("--omap", type=Dict[str, HOpt])
    p.add_argument("--oopt", type=Optional[HOpt])
    p.add_argument("--cal", type=calendar.Calendar)
    p.add_argument("--steps", type=int, default=3)
    return p


def hist_outcome(fn):
    try:
        with contextlib.redirect_stderr(io.StringIO()), contextlib.redirect_stdout(io.StringIO()):
            cfg = fn()
        dic = cfg.as_dict()
        dic.pop("cfg", None)
        return ["ok", tag(json.loads(json.dumps(dic, default=repr, sort_keys=True)))]   # key order is not part of a configuration
    except ArgumentError:
        return ["rejected"]
    except SystemExit as e:
        return ["crash", "SystemExit%s" % e.code]
    except BaseException as e:
        return ["crash", type(e).__name__]


def hist_argv(s, load=False):
    a = []
    for k, v in s.items():
        if k == "opt" and load:
            a.append("--opt=" + json.dumps(v))      # the whole group as one value: _ActionConfigLoad -> _apply_actions(parent_key)
        elif k == "opt":
            a += ["--opt.%s=%s" % (f, x) for f, x in v.items()]
        elif k == "cal":
            if "class_path" in v:
                a.append("--cal=" + v["class_path"])
            a += ["--cal.init_args.%s=%s" % (f, x) for f, x in v.get("init_args", {}).items()]
        elif k == "steps":
            a.append("--steps=%s" % v)
        else:
            a.append("--%s=%s" % (k, json.dumps(v)))
    return a


def hist_channels(s, mode, tmp):
    js = json.dumps(s)
    path = os.path.join(tmp, "hist.json")
    with open(path, "w") as f:
        f.write(js)
    extra = {}
    if "opt" in s:
        extra["argv_load"] = hist_outcome(lambda: hist_parser(mode).parse_args(hist_argv(s, load=True)))
    return {
        **extra,
        "object": hist_outcome(lambda: hist_parser(mode).parse_object(json.loads(js))),
        "string": hist_outcome(lambda: hist_parser(mode).parse_string(js)),
        "path": hist_outcome(lambda: hist_parser(mode).parse_path(path)),
        "cfgstr": hist_outcome(lambda: hist_parser(mode).parse_args(["--cfg", js])),
        "cfgfile": hist_outcome(lambda: hist_parser(mode).parse_args(["--cfg", path])),
        "argv": hist_outcome(lambda: hist_parser(mode).parse_args(hist_argv(s))),
    }


def run_hist(case, tmp):
    """clean-state answers of every channel, then the poisoning call on another parser, then the answers again"""
    mode = case["mode"]
    clean = hist_channels(case["settings"], mode, tmp)
    argv = []
    for k, item in enumerate(case["poison"]):
        if item[0] == "cfgfile":
            path = os.path.join(tmp, "poison%d.yaml" % k)
            with open(path, "w") as f:
                f.write(item[1])
            argv += ["--cfg", path]
        elif item[0] == "cfg":
            argv += ["--cfg", item[1]]
        else:
            argv.append(item[1])
    pz = hist_parser(case.get("poison_mode", "yaml"))
    poison = hist_outcome(lambda: pz.parse_args(argv))
    after = hist_channels(case["settings"], mode, tmp)
    return {"hist": {k: [clean[k], after[k]] for k in clean}, "poison": poison[0], "poison_argv": argv}


# ---------------------------------------------------------------------------------------------------------------------
# sub-command family: one top-level key and the keys of the chosen sub-command, every channel
# ---------------------------------------------------------------------------------------------------------------------
def sub_parser_tree(case, mode, dcf=None):
    kw = {"prog": "tool.py"} if case["prefix"] is True else {}
    p = ArgumentParser(exit_on_error=False, env_prefix=case["prefix"], parser_mode=mode, default_config_files=dcf, **kw)
    p.add_argument("--cfg", action=ActionConfigFile)
    p.add_argument("--top", type=build_type(case["top"]["ty"]))
    sc = p.add_subcommands()
    for name in case["subs"]:
        sp = ArgumentParser(exit_on_error=False, parser_mode=mode)
        if name == case["chosen"]:
            for leaf in case["leaves"]:
                sp.add_argument("--" + leaf["name"], type=build_type(leaf["ty"]))
        else:
            sp.add_argument("--ckpt", type=str, default="last")
        sc.add_subcommand(name, sp)
    return p


def sub_outcome(fn, case, keys):
    """per leaf key: ["ok", value] | ["rejected"] | ["crash", what]"""
    try:
        with contextlib.redirect_stderr(io.StringIO()), contextlib.redirect_stdout(io.StringIO()):
            cfg = fn()
        if cfg.get("subcommand") != case["chosen"]:
            return {k: ["crash", "OtherSubcommand"] for k in keys}
        out = {}
        for k in keys:
            try:
                out[k] = ["ok", tag(cfg[k])]
            except KeyError:
                out[k] = ["crash", "KeyMissing"]
        return out
    except ArgumentError:
        return {k: ["rejected"] for k in keys}
    except SystemExit as e:
        return {k: ["crash", "SystemExit%s" % e.code] for k in keys}
    except BaseException as e:
        return {k: ["crash", type(e).__name__] for k in keys}


def run_sub(case, tmp):
    for f in typing._cleanups:
        f()
    chosen = case["chosen"]
    leaves = [dict(case["top"], name="top", key="top")] + [dict(l, key=chosen + "." + l["name"]) for l in case["leaves"]]
    keys = [l["key"] for l in leaves]
    obj = {"top": untag(case["top"]["val"]), "subcommand": chosen, chosen: {l["name"]: untag(l["val"]) for l in case["leaves"]}}
    doc = case["doc"]
    path = os.path.join(tmp, "sub.json")
    with open(path, "w") as f:
        f.write(doc)
    pre = {True: "tool", False: None}.get(case["prefix"], case["prefix"]) if isinstance(case["prefix"], bool) else case["prefix"]
    pre = "" if pre is None else pre.replace("-", "_") + "_"
    envmap = {(pre + "subcommand").upper(): chosen}
    for l in leaves:
        envmap[(pre + l["key"].replace(".", "__")).upper()] = l["text"]
    for k in envmap:
        os.environ.pop(k, None)
    chans = {}
    for mode in case["modes"]:
        m = mode + "/"
        mk = lambda: sub_parser_tree(case, mode)
        argv = ["--top=" + case["top"]["text"], chosen] + ["--%s=%s" % (l["name"], l["text"]) for l in case["leaves"]]
        chans[m + "argv_eq"] = sub_outcome(lambda: mk().parse_args(argv), case, keys)
        chans[m + "object_nested"] = sub_outcome(lambda: mk().parse_object(json.loads(json.dumps(obj))), case, keys)
        chans[m + "env"] = sub_outcome(lambda: mk().parse_env(dict(envmap)), case, keys)      # an explicit mapping
        os.environ.update(envmap)
        try:
            chans[m + "env_args"] = sub_outcome(lambda: mk().parse_args([], env=True), case, keys)   # the process environment
        finally:
            for k in envmap:
                os.environ.pop(k, None)
        chans[m + "string:json_nested"] = sub_outcome(lambda: mk().parse_string(doc), case, keys)
        chans[m + "path:json_nested"] = sub_outcome(lambda: mk().parse_path(path), case, keys)
        chans[m + "cfgfile:json_nested"] = sub_outcome(lambda: mk().parse_args(["--cfg", path]), case, keys)
        chans[m + "cfgstr:json_nested"] = sub_outcome(lambda: mk().parse_args(["--cfg=" + doc]), case, keys)
        chans[m + "cfgenv:json_nested"] = sub_outcome(lambda: mk().parse_env({(pre + "cfg").upper(): doc}), case, keys)
        chans[m + "default_config:json_nested"] = sub_outcome(lambda: sub_parser_tree(case, mode, dcf=[path]).parse_args([]), case, keys)
    out = []
    for l in leaves:
        loaded = {}
        for mode in case["modes"]:
            ans = load_answer(ld.loaders[mode], doc)
            if ans[0] == "val":
                try:
                    ans = ["val", tag(dig(untag_loaded(ans[1]), l["key"].split(".")))]
                except KeyError:
                    ans = ["other", "KeyMissing"]
            loaded[mode + "/json_nested"] = ans
        strs = [l["text"]]
        strings_of(untag(l["val"]), strs)
        oracle, oracle_oc = oracles(strs, case["modes"])
        out.append({"key": l["key"], "chan": {n: c[l["key"]] for n, c in chans.items()}, "loaded": loaded, "oracle": oracle,
                    "oracle_oc": oracle_oc,
                    "clash": False})
    return {"leaves": out, "envmap": envmap}


# ---------------------------------------------------------------------------------------------------------------------
# options with nargs / choices / a plain callable type
# ---------------------------------------------------------------------------------------------------------------------
def pos(x):
    x = int(x)
    if x <= 0:
        raise ValueError("not positive: %r" % (x,))
    return x


def up(x):
    if not isinstance(x, str):
        raise TypeError("expected a str")
    return x.upper()


def plain_parser(case, mode, dcf=None):
    kw = {"prog": "tool.py"} if case["prefix"] is True else {}
    p = ArgumentParser(exit_on_error=False, env_prefix=case["prefix"], parser_mode=mode, default_config_files=dcf, **kw)
    p.add_argument("--cfg", action=ActionConfigFile)
    p.add_argument("--other", type=int, default=3)
    akw = {}
    pf = case["pf"]
    if pf == "pos":
        akw["type"] = pos
    elif pf == "up":
        akw["type"] = up
    elif pf != "none":
        akw["type"] = build_type(pf[1])
    if case["nargs"] is not None:
        akw["nargs"] = case["nargs"]
    if case["choices"] is not None:
        akw["choices"] = [untag(c) for c in case["choices"]]
    p.add_argument("--" + case["key"], **akw)
    return p


def run_plain(case, tmp):
    SIBKEY[0] = None
    dest = case["key"]
    key = dest.split(".")
    islist = case["nargs"] in ("*", "+") or isinstance(case["nargs"], int)
    vals = [untag(v) for v in case["vals"]]
    val = vals if islist else vals[0]
    nested = val
    for k in reversed(key):
        nested = {k: nested}
    doc = json.dumps(nested)
    path = os.path.join(tmp, "plain.json")
    with open(path, "w") as f:
        f.write(doc)
    pre = {True: "tool", False: None}.get(case["prefix"], case["prefix"]) if isinstance(case["prefix"], bool) else case["prefix"]
    pre = "" if pre is None else pre.replace("-", "_") + "_"
    envvar = (pre + dest.replace(".", "__")).upper()
    cfgvar = (pre + "cfg").upper()
    toks, envtext = case["toks"], case["envtext"]
    chan, loaded = {}, {}
    for mode in case["modes"]:
        m = mode + "/"
        mk = lambda: plain_parser(case, mode)
        if not any(t.startswith("-") for t in toks):
            chan[m + "argv_sp"] = outcome(lambda: mk().parse_args(["--" + dest] + toks), dest)
        if len(toks) == 1:
            chan[m + "argv_eq"] = outcome(lambda: mk().parse_args(["--%s=%s" % (dest, toks[0])]), dest)
        chan[m + "env"] = outcome(lambda: mk().parse_env({envvar: envtext}), dest)
        os.environ[envvar] = envtext
        try:
            chan[m + "env_args"] = outcome(lambda: mk().parse_args([], env=True), dest)
        finally:
            del os.environ[envvar]
        chan[m + "object_nested"] = outcome(lambda: mk().parse_object(json.loads(doc)), dest)
        if len(key) > 1:
            chan[m + "object_dotted"] = outcome(lambda: mk().parse_object({dest: json.loads(json.dumps(val))}), dest)
        name = "json_nested"
        chan[m + "string:" + name] = outcome(lambda: mk().parse_string(doc), dest)
        chan[m + "path:" + name] = outcome(lambda: mk().parse_path(path), dest)
        chan[m + "cfgfile:" + name] = outcome(lambda: mk().parse_args(["--cfg", path]), dest)
        chan[m + "cfgstr:" + name] = outcome(lambda: mk().parse_args(["--cfg=" + doc]), dest)
        chan[m + "cfgenv:" + name] = outcome(lambda: mk().parse_env({cfgvar: doc}), dest)
        chan[m + "default_config:" + name] = outcome(lambda: plain_parser(case, mode, dcf=[path]).parse_args([]), dest)
        ans = load_answer(ld.loaders[mode], doc)
        if ans[0] == "val":
            try:
                ans = ["val", tag(dig(untag_loaded(ans[1]), key))]
            except KeyError:
                ans = ["other", "KeyMissing"]
        loaded[m + name] = ans
    strs = list(toks) + [envtext]
    strings_of(val, strs)
    oracle, _ = oracles(strs, [])
    return {"chan": chan, "loaded": loaded, "oracle": oracle, "envvar": envvar}


def untag_loaded(t):
    """inverse of tag for what loaders can return (keeps tagged leaves addressable by key)"""
    if isinstance(t, dict):
        if "d" in t:
            return {(untag_loaded(k) if not isinstance(k, str) else k): untag_loaded(v) for k, v in t["d"]}
        if "l" in t:
            return [untag_loaded(x) for x in t["l"]]
        if "i" in t:
            return int(t["i"])
        if "f" in t:
            return float(t["f"])
        if "t" in t:
            return tuple(untag_loaded(x) for x in t["t"])
        return repr(t)
    return t


def main():
    payload = json.load(sys.stdin)
    tmp = tempfile.mkdtemp(prefix="jv_c05_")
    # the working directory holds readable files whose names occur as string settings (an option declared with
    # enable_path=True takes a whole-value text that names a file for its content — an entry of it must not)
    for name, content in (("notes.txt", "remember the milk\n"), ("data.yaml", "a: 1\n")):
        with open(os.path.join(tmp, name), "w") as f:
            f.write(content)
    os.chdir(tmp)
    out = []
    try:
        for case in payload["cases"]:
            try:
                fn = {"hist": run_hist, "sub": run_sub, "plain": run_plain}.get(case.get("kind"), run_case)
                out.append(contextvars.copy_context().run(fn, case, tmp))
            except Exception as e:
                out.append({"error": "%s: %s" % (type(e).__name__, e)})
    finally:
        shutil.rmtree(tmp, ignore_errors=True)
    print(json.dumps(out))


main()

"""C14 runner: writes generated class families to real modules in a scratch directory, feeds specs through
parse_args / parse_object and instantiate_classes of the real jsonargparse, and reports accept/reject, the parsed
(normalised) spec, and the constructor log.

stdin : {"batches": [{"fam": <family>, "cases": [<case>, ...]}, ...]}
stdout: last line = JSON list (per batch) of lists (per case) of {"main": obs, "twin": obs|None}
"""
import importlib
import json
import shutil
import sys
import tempfile


def py_value(v):
    if "i" in v:
        return v["i"]
    if "s" in v:
        return v["s"]
    if "null" in v:
        return None
    if "d" in v:
        return {k: py_value(x) for k, x in v["d"]}
    sp = v["spec"]
    d = {"class_path": sp["cp"]}
    if sp["ia"]:
        d["init_args"] = {k: py_value(x) for k, x in sp["ia"]}
    if sp["dk"]:
        d["dict_kwargs"] = {k: py_value(x) for k, x in sp["dk"]}
    return d


def lit(v):
    return repr(py_value(v))


def ann(ty):
    if ty[0] == "int":
        return "int"
    if ty[0] == "str":
        return "str"
    if ty[0] == "cls":
        return ty[1]
    return "Optional[%s]" % ty[1]


def sig(params, varkw):
    """varkw None = plain function; True/False = method with/without **kw. All parameters keyword-only
    (a required parameter may follow a defaulted one)."""
    parts = []
    for p in params:
        s = "%s: %s" % (p["name"], ann(p["ty"]))
        if p["def"] is not None:
            s += " = " + lit(p["def"])
        parts.append(s)
    if parts:
        parts = ["*"] + parts
    if varkw is not None:
        parts = ["self"] + parts
    if varkw:
        parts.append("**kw")
    return ", ".join(parts)


def module_source(fam):
    out = ["import abc", "from typing import Optional", "LOG = []", ""]
    by_name = {c["name"]: c for c in fam["classes"]}

    def ancestors(name, acc):
        for p in by_name[name]["parents"]:
            if p not in acc:
                acc.append(p)
                ancestors(p, acc)
        return acc

    for c in fam["classes"]:
        bases = ", ".join(c["parents"]) if c["parents"] else "metaclass=abc.ABCMeta"
        out.append("class %s(%s):" % (c["name"], bases))
        names = [p["name"] for p in c["params"]]
        # a required parameter may not follow a defaulted one in Python: make everything keyword-only
        out.append("    def __init__(%s):" % sig(c["params"], c["varkw"]))
        kw = ", ".join("%s=%s" % (n, n) for n in names)
        if c["varkw"]:
            kw = (kw + ", " if kw else "") + "**kw"
        out.append("        LOG.append((id(self), type(self).__name__, dict(%s)))" % kw)
        if c["abstract"]:
            out.append("    @abc.abstractmethod")
            out.append("    def am_%s(self): ..." % c["name"])
        else:
            for a in [c["name"]] + ancestors(c["name"], []):
                if by_name[a]["abstract"]:
                    out.append("    def am_%s(self): return 0" % a)
        out.append("")
    for f in fam["funcs"]:
        names = [p["name"] for p in f["params"]]
        out.append("def %s(%s) -> %s:" % (f["name"], sig(f["params"], None), f["ret"]))
        out.append("    return %s(%s)" % (f["ret"], ", ".join("%s=%s" % (n, n) for n in names)))
        out.append("")
    for k in fam["consts"]:
        out.append("%s = 5" % k)
    return "\n".join(out) + "\n"


def render_raw(r):
    if "i" in r:
        return str(r["i"])
    if "s" in r:
        return r["s"]
    if "null" in r:
        return "null"
    return json.dumps(py_value(r))


def argv_of(steps):
    args = []
    for st in steps:
        if "nested" in st:
            args.append("--x.%s=%s" % (".".join(st["nested"]), render_raw(st["raw"])))
        else:
            args.append("--x=%s" % render_raw(st["raw"]))
    return args


def value_json(v):
    from jsonargparse import Namespace

    if isinstance(v, bool):
        return {"weird": repr(v)}
    if isinstance(v, int):
        return {"i": v}
    if isinstance(v, str):
        return {"s": v}
    if v is None:
        return {"null": 1}
    if isinstance(v, Namespace):
        v = v.__dict__
    if isinstance(v, dict) and "class_path" in v and set(v) <= {"class_path", "init_args", "dict_kwargs"}:
        ia = v.get("init_args", {})
        if isinstance(ia, Namespace):
            ia = ia.__dict__
        dk = v.get("dict_kwargs", {})
        if not isinstance(ia, dict) or not isinstance(dk, dict) or not isinstance(v["class_path"], str):
            return {"weird": repr(v)}
        return {"spec": {"cp": v["class_path"], "ia": [[k, value_json(x)] for k, x in ia.items()],
                         "dk": [[k, value_json(x)] for k, x in dk.items()]}}
    return {"weird": repr(v)[:200]}


def observe(mod, base, dflt, steps, channel):
    from jsonargparse import ArgumentError, ArgumentParser

    parser = ArgumentParser(exit_on_error=False)
    kw = {}
    if dflt is not None:
        kw["default"] = py_value(dflt)
    try:
        parser.add_argument("--x", type=getattr(mod, base), **kw)
    except Exception as e:  # noqa
        return {"exc": "add_argument:" + type(e).__name__}
    try:
        if channel == "object":
            cfg = parser.parse_object({"x": py_value(steps[0]["raw"])})
        else:
            cfg = parser.parse_args(argv_of(steps))
    except ArgumentError:
        return {"rej": 1}
    except SystemExit as e:
        return {"exc": "SystemExit(%s)" % e.code}
    except BaseException as e:  # noqa
        return {"exc": type(e).__name__}
    acc = value_json(cfg.clone().__dict__.get("x"))
    del mod.LOG[:]
    try:
        init = parser.instantiate_classes(cfg)
    except (TypeError, ValueError):  # a TypeError below an Optional[...] parameter is re-raised as ValueError
        return {"acc": acc, "inst": {"typeerr": 1}}
    except BaseException as e:  # noqa
        return {"acc": acc, "inst": {"other": type(e).__name__}}
    ids = {}
    log = []
    for n, (oid, cname, kwargs) in enumerate(mod.LOG):
        ids[oid] = n

    def arg(o):
        if isinstance(o, bool):
            return {"weird": repr(o)}
        if isinstance(o, int):
            return {"i": o}
        if isinstance(o, str):
            return {"s": o}
        if o is None:
            return {"null": 1}
        if id(o) in ids and type(o).__module__ == mod.__name__:
            return {"ref": ids[id(o)]}
        return {"weird": repr(o)[:100]}

    for oid, cname, kwargs in mod.LOG:
        log.append([cname, [[k, arg(v)] for k, v in kwargs.items()]])
    root = arg(init.x)
    # the object is of exactly the class its constructor-log entry names
    if "ref" in root and type(init.x).__name__ != log[root["ref"]][0]:
        root = {"weird": "type mismatch"}
    return {"acc": acc, "inst": {"ok": {"root": root, "log": log}}}


def main():
    payload = json.load(sys.stdin)
    tmp = tempfile.mkdtemp(prefix="jv_c14_")
    sys.path.insert(0, tmp)
    results = []
    try:
        for bn, batch in enumerate(payload["batches"]):
            fam = batch["fam"]
            with open("%s/%s.py" % (tmp, fam["mod"]), "w") as f:
                f.write(module_source(fam))
            importlib.invalidate_caches()
            mod = importlib.import_module(fam["mod"])
            res = []
            for case in batch["cases"]:
                main_obs = observe(mod, case["base"], case["dflt"], case["steps"], case.get("channel", "argv"))
                twin_obs = None
                if case.get("twin") is not None:
                    twin_obs = observe(mod, case["base"], case["dflt"], case["twin"], "argv")
                res.append({"main": main_obs, "twin": twin_obs})
            results.append(res)
    finally:
        shutil.rmtree(tmp, ignore_errors=True)
    print(json.dumps(results))


if __name__ == "__main__":
    if len(sys.argv) > 1 and sys.argv[1] == "--source":
        print(module_source(json.load(sys.stdin)))
    else:
        main()

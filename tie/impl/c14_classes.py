"""C14 runner: writes generated class families to real modules in a scratch directory, feeds specs through
parse_args / parse_object and instantiate_classes of the real jsonargparse, and reports accept/reject, the parsed
(normalised) spec, and the constructor log.

stdin : {"batches": [{"fam": <family>, "cases": [<case>, ...]}, ...]}
stdout: last line = JSON list (per batch) of lists (per case) of {"main": obs, "twin": obs|None}
"""
import importlib
import inspect
import json
import shutil
import sys
import tempfile


def py_value(v):
    if "i" in v:
        return v["i"]
    if "s" in v:
        return v["s"]
    if "null" in v:
        return None
    if "d" in v:
        return {k: py_value(x) for k, x in v["d"]}
    sp = v["spec"]
    d = {"class_path": sp["cp"]}
    if sp["ia"]:
        d["init_args"] = {k: py_value(x) for k, x in sp["ia"]}
    if sp["dk"]:
        d["dict_kwargs"] = {k: py_value(x) for k, x in sp["dk"]}
    return d


def lit(v):
    if "spec" in v:   # a class-typed parameter defaulting to a class spec: lazy_instance(Cls, **init_args)
        sp = v["spec"]
        args = "".join(", %s=%r" % (k, py_value(x)) for k, x in sp["ia"])
        return "lazy_instance(%s%s)" % (sp["cp"].split(".")[-1], args)
    return repr(py_value(v))


def ann(ty):
    if ty[0] == "int":
        return "int"
    if ty[0] == "str":
        return "str"
    if ty[0] == "cls":
        return ty[1]
    return "Optional[%s]" % ty[1]


def sig(params, varkw):
    """varkw None = plain function; True/False = method with/without **kw. All parameters keyword-only
    (a required parameter may follow a defaulted one)."""
    parts = []
    for p in params:
        s = "%s: %s" % (p["name"], ann(p["ty"]))
        if p["def"] is not None:
            s += " = " + lit(p["def"])
        parts.append(s)
    if parts:
        parts = ["*"] + parts
    if varkw is not None:
        parts = ["self"] + parts
    if varkw:
        parts.append("**kw")
    return ", ".join(parts)


def _class_source(fam, c, parent_prefix=""):
    by_name = {k["name"]: k for k in fam["classes"]}

    def ancestors(name, acc):
        for p in by_name[name]["parents"]:
            if p not in acc:
                acc.append(p)
                ancestors(p, acc)
        return acc

    out = []
    bases = ", ".join(parent_prefix + p for p in c["parents"]) if c["parents"] else "metaclass=abc.ABCMeta"
    out.append("class %s(%s):" % (c["name"], bases))
    names = [p["name"] for p in c["params"]]
    # a required parameter may not follow a defaulted one in Python: make everything keyword-only
    out.append("    def __init__(%s):" % sig(c["params"], c["varkw"]))
    kw = ", ".join("%s=%s" % (n, n) for n in names)
    if c["varkw"]:
        kw = (kw + ", " if kw else "") + "**kw"
    out.append("        LOG.append((id(self), type(self).__name__, dict(%s)))" % kw)
    if c["abstract"]:
        out.append("    @abc.abstractmethod")
        out.append("    def am_%s(self): ..." % c["name"])
    else:
        for a in [c["name"]] + ancestors(c["name"], []):
            if by_name[a]["abstract"]:
                out.append("    def am_%s(self): return 0" % a)
    out.append("")
    return out


def _func_source(f):
    names = [p["name"] for p in f["params"]]
    return ["def %s(%s) -> %s:" % (f["name"], sig(f["params"], None), f["ret"]),
            "    return %s(%s)" % (f["ret"], ", ".join("%s=%s" % (n, n) for n in names)), ""]


HEADER = ["import abc", "from typing import Optional", "from jsonargparse import lazy_instance"]


def sub_names(fam):
    """submodules of a family laid out as a package, in order of first use"""
    out = []
    for _, sname in fam.get("subs") or []:
        if sname not in out:
            out.append(sname)
    return out


def module_source(fam, sub=None):
    """sub None: the module itself (for a package: its __init__.py); else: that submodule"""
    where = dict(fam.get("subs") or [])
    subs = sub_names(fam)
    if sub is None:
        out = HEADER + ["LOG = []", ""]
    else:
        out = HEADER + ["from %s import *" % fam["mod"]]
        out += ["from %s.%s import *" % (fam["mod"], x) for x in subs[: subs.index(sub)]]
        # `import *` leaves out underscore names: private classes / functions defined earlier are imported by name
        for src in [None] + subs[: subs.index(sub)]:
            priv = [n["name"] for n in fam["classes"] + fam["funcs"] if n["name"].startswith("_") and where.get(n["name"]) == src]
            if priv:
                out.append("from %s import %s" % (fam["mod"] + ("." + src if src else ""), ", ".join(priv)))
        out.append("")
    for c in fam["classes"]:
        if where.get(c["name"]) == sub:
            out += _class_source(fam, c)
    for f in fam["funcs"]:
        if where.get(f["name"]) == sub:
            out += _func_source(f)
    if sub is None:
        for k in fam["consts"]:
            out.append("%s = 5" % k)
        if subs:
            out.append("from . import %s" % ", ".join(subs))
        for alias, tgt in fam.get("exports") or []:
            out.append("from .%s import %s as %s" % (where[tgt], tgt, alias))
    return "\n".join(out) + "\n"


def shadow_source(fam):
    """the second module of a (one-module) family: homonyms of the classes named in fam["shadows"] - same name, same
    parents (imported from the family's module), same constructor, logging into the same LOG"""
    names = [n["name"] for n in fam["classes"] + fam["funcs"]]
    # the parents are the ORIGINAL classes (also when a parent has a homonym of its own in this module)
    out = HEADER + ["import %s as orig_" % fam["mod"], "from %s import LOG, %s" % (fam["mod"], ", ".join(names)), ""]
    for c in fam["classes"]:
        if c["name"] in fam["shadows"]:
            out += _class_source(fam, c, "orig_.")
    return "\n".join(out) + "\n"


def package_source(fam):
    """all files of the family, for replays"""
    files = {("%s/__init__.py" % fam["mod"]) if sub_names(fam) else ("%s.py" % fam["mod"]): module_source(fam)}
    for x in sub_names(fam):
        files["%s/%s.py" % (fam["mod"], x)] = module_source(fam, x)
    if fam.get("shadows"):
        files["%s_alt.py" % fam["mod"]] = shadow_source(fam)
    return files


def growth_source(fam, have):
    """source of the classes/functions of `fam` that the loaded module does not have yet (a plugin loaded later)"""
    out = []
    for c in fam["classes"]:
        if c["name"] not in have:
            out += _class_source(fam, c)
    for f in fam["funcs"]:
        if f["name"] not in have:
            out += _func_source(f)
    return "\n".join(out) + "\n" if out else ""


def render_raw(r):
    if "i" in r:
        return str(r["i"])
    if "s" in r:
        return r["s"]
    if "null" in r:
        return "null"
    return json.dumps(py_value(r))


def argv_of(steps, opt="x"):
    args = []
    for st in steps:
        if "cfg" in st:      # one config source: {option: raw, ...}
            args.append("--cfg=%s" % json.dumps({k: py_value(v) for k, v in st["cfg"]}))
            continue
        o = st.get("opt", opt)
        if "nested" in st:
            args.append("--%s.%s=%s" % (o, ".".join(st["nested"]), render_raw(st["raw"])))
        else:
            args.append("--%s=%s" % (o, render_raw(st["raw"])))
    return args


def value_json(v):
    from jsonargparse import Namespace

    if isinstance(v, bool):
        return {"weird": repr(v)}
    if isinstance(v, int):
        return {"i": v}
    if isinstance(v, str):
        return {"s": v}
    if v is None:
        return {"null": 1}
    if isinstance(v, Namespace):
        v = v.__dict__
    if isinstance(v, dict) and "class_path" in v and set(v) <= {"class_path", "init_args", "dict_kwargs"}:
        ia = v.get("init_args", {})
        if isinstance(ia, Namespace):
            ia = ia.__dict__
        dk = v.get("dict_kwargs", {})
        if not isinstance(ia, dict) or not isinstance(dk, dict) or not isinstance(v["class_path"], str):
            return {"weird": repr(v)}
        return {"spec": {"cp": v["class_path"], "ia": [[k, value_json(x)] for k, x in ia.items()],
                         "dk": [[k, value_json(x)] for k, x in dk.items()]}}
    return {"weird": repr(v)[:200]}


def observe(mod, base, dflt, steps, channel, wrap=None, dflt_str=None):
    return observe_multi(mod, [{"name": "x", "base": base, "dflt": dflt, "dflt_str": dflt_str}], steps, channel, wrap)[0]


def group_value(mod, base, ns):
    """the Namespace of a class group `add_class_arguments(Base, "x")` read as the spec it stands for:
    class_path = the group's class, init_args = the group's entries in their order"""
    from jsonargparse import Namespace
    from jsonargparse._util import get_import_path

    if not isinstance(ns, Namespace):
        return {"weird": repr(ns)[:200]}
    return {"spec": {"cp": get_import_path(class_obj(mod, base)), "ia": [[k, value_json(v)] for k, v in ns.__dict__.items()],
                     "dk": []}}


def observe_multi(mod, opts, steps, channel, wrap=None):
    """opts: [{"name", "base", "dflt"}] class-typed options of one parser (in this order); steps: argv items
    (for option "opt", default the first) and config sources. Returns one observation per option.
    wrap "sub": the options belong to the parser of a sub-command `fit` (argv = fit + items; values and objects are
    read below cfg.fit); wrap "group": instead of an option typed Base the parser has the class group
    add_class_arguments(Base, "x") (dotted items only; the group's Namespace is read as the spec of class Base)."""
    from jsonargparse import ArgumentError, ArgumentParser

    n = len(opts)
    parser = top = ArgumentParser(exit_on_error=False)
    if wrap == "sub":
        parser = ArgumentParser(exit_on_error=False)
        top.add_subcommands().add_subcommand("fit", parser)
    if any("cfg" in st for st in steps):
        parser.add_argument("--cfg", action="config")
    try:
        for o in opts:
            kw = {}
            if o.get("dflt_str") is not None:
                kw["default"] = o["dflt_str"]        # the default given as a class name / class path string
            elif o["dflt"] is not None:
                kw["default"] = py_value(o["dflt"])
            if wrap == "group":
                parser.add_class_arguments(class_obj(mod, o["base"]), o["name"])
            else:
                parser.add_argument("--" + o["name"], type=class_obj(mod, o["base"]), **kw)
    except Exception as e:  # noqa
        return [{"exc": "add_argument:" + type(e).__name__}] * n
    below = (lambda ns: ns.__dict__.get("fit")) if wrap == "sub" else (lambda ns: ns)
    try:
        if channel == "object":
            cfg = top.parse_object({opts[0]["name"]: py_value(steps[0]["raw"])})
        else:
            cfg = top.parse_args((["fit"] if wrap == "sub" else []) + argv_of(steps, opts[0]["name"]))
    except ArgumentError:
        return [{"rej": 1}] * n
    except SystemExit as e:
        return [{"exc": "SystemExit(%s)" % e.code}] * n
    except BaseException as e:  # noqa
        return [{"exc": type(e).__name__}] * n
    try:
        held = below(cfg.clone()).__dict__
        accs = [group_value(mod, o["base"], held.get(o["name"])) if wrap == "group" else value_json(held.get(o["name"]))
                for o in opts]
    except BaseException as e:  # noqa
        return [{"exc": "value:" + type(e).__name__}] * n
    del mod.LOG[:]
    try:
        init = top.instantiate_classes(cfg)
    except (TypeError, ValueError):  # a TypeError below an Optional[...] parameter is re-raised as ValueError
        return [{"acc": a, "inst": {"typeerr": 1}} for a in accs]
    except BaseException as e:  # noqa
        return [{"acc": a, "inst": {"other": type(e).__name__}} for a in accs]
    try:
        roots = [below(init).__dict__.get(o["name"]) for o in opts]
    except BaseException as e:  # noqa
        return [{"acc": a, "inst": {"other": "result:" + type(e).__name__}} for a in accs]
    return split_logs(mod, accs, roots)


def split_logs(mod, accs, roots):
    """the constructor calls of each option / element: instantiate_classes goes through them in order, the object of
    one is the last one built for it; anything left over after the last one stays visible in its segment"""
    full = list(mod.LOG)
    n = len(roots)
    segs, start = [], 0
    for i, r in enumerate(roots):
        pos = [k for k in range(start, len(full)) if full[k][0] == id(r)] if of_family(mod, r) else []
        stop = (pos[-1] + 1) if pos else start
        if i == n - 1:
            stop = len(full)
        segs.append(full[start:stop])
        start = stop
    out = []
    for a, r, seg in zip(accs, roots, segs):
        ids = {}
        for k, (oid, cname, kwargs) in enumerate(seg):
            ids[oid] = k

        def arg(o):
            if isinstance(o, bool):
                return {"weird": repr(o)}
            if isinstance(o, int):
                return {"i": o}
            if isinstance(o, str):
                return {"s": o}
            if o is None:
                return {"null": 1}
            if id(o) in ids and of_family(mod, o):
                return {"ref": ids[id(o)]}
            return {"weird": repr(o)[:100]}

        log = [[cname, [[k, arg(v)] for k, v in kwargs.items()]] for oid, cname, kwargs in seg]
        root = arg(r)
        # the object is of exactly the class its constructor-log entry names
        if "ref" in root and type(r).__name__ != log[root["ref"]][0]:
            root = {"weird": "type mismatch"}
        out.append({"acc": a, "inst": {"ok": {"root": root, "log": log}}})
    return out


def cont_argv(srcs):
    args = []
    for c in srcs:
        if "dict" in c or "list" in c:
            v = {k: py_value(x) for k, x in c["dict"]} if "dict" in c else [py_value(x) for x in c["list"]]
            args.append("--cfg=%s" % json.dumps({"m": v}) if c.get("via") == "cfg" else "--m=%s" % json.dumps(v))
        elif "key" in c:
            args.append("--m.%s=%s" % (c["key"], render_raw(c["raw"])))
        elif "append" in c:
            args.append("--m+=%s" % render_raw(c["append"]))
        else:
            args.append("--m.%s=%s" % (".".join(c["last"]), render_raw(c["raw"])))
    return args


def observe_cont(mod, base, cont):
    """one option --m typed Dict[str, Base] or List[Base]; observation per element of the final value"""
    from typing import Dict, List

    from jsonargparse import ArgumentError, ArgumentParser

    cls = class_obj(mod, base)
    parser = ArgumentParser(exit_on_error=False)
    if any(c.get("via") == "cfg" for c in cont["srcs"]):
        parser.add_argument("--cfg", action="config")
    parser.add_argument("--m", type=Dict[str, cls] if cont["kind"] == "dict" else List[cls])
    try:
        cfg = parser.parse_args(cont_argv(cont["srcs"]))
    except ArgumentError:
        return {"rej": 1}
    except SystemExit as e:
        return {"exc": "SystemExit(%s)" % e.code}
    except BaseException as e:  # noqa
        return {"exc": type(e).__name__}
    val = cfg.clone().__dict__.get("m")
    if cont["kind"] == "dict":
        if not isinstance(val, dict):
            return {"exc": "value:" + type(val).__name__}
        keys, vals = [str(k) for k in val], list(val.values())
    else:
        if not isinstance(val, list):
            return {"exc": "value:" + type(val).__name__}
        keys, vals = [""] * len(val), list(val)
    accs = [value_json(v) for v in vals]
    del mod.LOG[:]
    try:
        init = parser.instantiate_classes(cfg)
    except (TypeError, ValueError):
        return {"elems": [[k, {"acc": a, "inst": {"typeerr": 1}}] for k, a in zip(keys, accs)]}
    except BaseException as e:  # noqa
        return {"elems": [[k, {"acc": a, "inst": {"other": type(e).__name__}}] for k, a in zip(keys, accs)]}
    objs = list(init.m.values()) if cont["kind"] == "dict" else list(init.m)
    return {"elems": [[k, o] for k, o in zip(keys, split_logs(mod, accs, objs))]}


def load_family(tmp, fam):
    import os

    for rel, src in package_source(fam).items():
        os.makedirs(os.path.dirname("%s/%s" % (tmp, rel)), exist_ok=True)
        with open("%s/%s" % (tmp, rel), "w") as f:
            f.write(src)
    importlib.invalidate_caches()
    mod = importlib.import_module(fam["mod"])
    if fam.get("shadows"):
        importlib.import_module(fam["mod"] + "_alt")     # the module with the homonyms is loaded too
    return mod


def class_obj(mod, name):
    """the class named `name` of the family, wherever in the package it is defined"""
    for m in [mod] + [v for v in vars(mod).values() if inspect.ismodule(v) and v.__name__.startswith(mod.__name__ + ".")]:
        o = vars(m).get(name)
        if inspect.isclass(o) and o.__name__ == name:
            return o
    return getattr(mod, name)


def of_family(mod, o):
    m = type(o).__module__
    return m == mod.__name__ or m.startswith(mod.__name__ + ".")


def grow_family(tmp, mod, fam):
    """a plugin is loaded: classes/functions of `fam` the module does not have yet are appended to its file and defined in it"""
    if sub_names(fam):
        return      # a package is loaded whole (histories use one-module families)
    have = set(vars(mod))
    src = growth_source(fam, have)
    if not src:
        return
    import linecache

    path = "%s/%s.py" % (tmp, fam["mod"])
    before = open(path).read()
    with open(path, "a") as f:
        f.write(src)
    linecache.checkcache(path)
    linecache.clearcache()
    code = compile("\n" * before.count("\n") + src, path, "exec")  # line numbers as in the file (inspect.getsource)
    exec(code, mod.__dict__)


def run_case(tmp, mods, case):
    fam = case["fam"]
    first = case["warm"]["fam"] if case.get("warm") else fam
    mod = mods.get(fam["mod"])
    if mod is None:
        mod = mods[fam["mod"]] = load_family(tmp, first)
    res = {"twin": None}
    if case.get("warm"):
        w = case["warm"]
        res["warm"] = observe(mod, w["base"], w["dflt"], w["steps"], "argv")
    grow_family(tmp, mod, fam)
    if case.get("cont"):
        res["main"] = observe_cont(mod, case["base"], case["cont"])
        return res
    if case.get("multi"):
        obs = observe_multi(mod, case["multi"]["opts"], case["multi"]["argv"], "argv")
        res["main"], res["sibs"] = obs[0], obs[1:]
        return res
    ch = case.get("channel", "argv")
    wrap = {"sub": "sub", "group": "group"}.get(ch)
    res["main"] = observe(mod, case["base"], case["dflt"], case["steps"], "argv" if wrap else ch, wrap, case.get("dflt_str"))
    if case.get("twin") is not None:
        res["twin"] = observe(mod, case["base"], case["dflt"], case["twin"], "argv", wrap, case.get("dflt_str"))
    return res


def main():
    payload = json.load(sys.stdin)
    tmp = tempfile.mkdtemp(prefix="jv_c14_")
    sys.path.insert(0, tmp)
    results = []
    mods = {}
    try:
        for bn, batch in enumerate(payload["batches"]):
            res = []
            for case in batch["cases"]:
                c = dict(case)
                c.setdefault("fam", batch["fam"])
                res.append(run_case(tmp, mods, c))
            results.append(res)
    finally:
        shutil.rmtree(tmp, ignore_errors=True)
    print(json.dumps(results))


if __name__ == "__main__":
    if len(sys.argv) > 1 and sys.argv[1] == "--source":
        print(module_source(json.load(sys.stdin)))
    else:
        main()

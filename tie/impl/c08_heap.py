"""C08 runner: builds the argument objects of each case from its heap description, runs ONE call of the real
jsonargparse API on them and reports what a deep snapshot (value, type, identity of every nested container) sees
afterwards, plus the process-global state before/after.

stdin  {"cases": [case, ...], "scratch": dir}
stdout last line: [obs, ...]   obs = {"ok": bool, "result": oval, "after": [oval per pre-existing object],
                                       "globals": [bool...], "defaults_same": bool, "exc": name}
"""
import argparse
import json
import os
import shutil
import sys
from typing import Dict, List, Optional, Tuple

import jsonargparse
from jsonargparse import ArgumentParser, Namespace
from jsonargparse._common import parser_context_vars
from jsonargparse._typehints import sub_defaults
from jsonargparse._util import current_path_dir

ORIG_ARGPARSE_NS = argparse.Namespace
CTX_ORDER = ["parent_parser", "lenient_check", "load_value_mode", "class_instantiators", "nested_links",
             "defaults_cache", "parser_capture"]


def mk_type(t):
    if t == "int":
        return int
    if t == "str":
        return str
    k = t[0]
    if k == "list":
        return List[mk_type(t[1])]
    if k == "dict":
        return Dict[str, mk_type(t[1])]
    if k == "tup1":
        return Tuple[mk_type(t[1])]
    if k == "tup2":
        return Tuple[mk_type(t[1]), mk_type(t[2])]
    if k == "opt":
        return Optional[mk_type(t[1])]
    raise ValueError(t)


def build_heap(cells):
    """two passes so that sharing (and cycles) in the description become sharing of objects"""
    objs = []
    for c in cells:
        (k, _), = c.items()
        objs.append([] if k == "l" else {} if k == "d" else Namespace())

    def val(v):
        (k, x), = v.items()
        if k == "i":
            return x
        if k == "s":
            return x
        if k == "n":
            return None
        if k == "t":
            return tuple(val(e) for e in x)
        if k == "r":
            return objs[x]
        raise ValueError(k)

    for o, c in zip(objs, cells):
        (k, x), = c.items()
        if k == "l":
            o.extend(val(e) for e in x)
        elif k == "d":
            for kk, vv in x:
                o[kk] = val(vv)
        else:
            for kk, vv in x:
                object.__setattr__(o, kk, val(vv))
    return objs, val


def build_tree(cells, root):
    """a loaded document (relative cells) as a plain python tree, for json.dumps"""
    def val(v):
        (k, x), = v.items()
        if k in ("i", "s"):
            return x
        if k == "n":
            return None
        if k == "r":
            (ck, cx), = cells[x].items()
            if ck == "l":
                return [val(e) for e in cx]
            return {kk: val(vv) for kk, vv in cx}
        raise ValueError(k)
    return val(root)


class GroupUnit:
    """the class of the class groups (add_class_arguments(GroupUnit, key)): no parameters; an instance is shown as a new,
    empty object"""


def view(o, ids, depth=0):
    if depth > 40:
        return {"x": "depth"}
    if isinstance(o, bool):
        return {"x": "bool"}
    if isinstance(o, int):
        return {"i": o}
    if isinstance(o, str):
        return {"s": o}
    if o is None:
        return {"n": 0}
    if isinstance(o, tuple):
        return {"t": [view(e, ids, depth + 1) for e in o]}
    if id(o) in ids:
        return {"old": ids[id(o)]}
    return content(o, ids, depth)


def content(o, ids, depth=0):
    if isinstance(o, Namespace):
        return {"nns": [[k, view(v, ids, depth + 1)] for k, v in vars(o).items()]}
    if isinstance(o, dict):
        if all(isinstance(k, str) for k in o):
            return {"nd": [[k, view(v, ids, depth + 1)] for k, v in o.items()]}
        return {"x": "dict-with-nonstr-keys"}
    if isinstance(o, list):
        return {"nl": [view(e, ids, depth + 1) for e in o]}
    if type(o) is GroupUnit:
        return {"nns": []}
    return {"x": type(o).__name__}


def plain(o):
    if isinstance(o, Namespace):
        return ("ns", [(k, plain(v)) for k, v in vars(o).items()])
    if isinstance(o, dict):
        return ("d", [(k, plain(v)) for k, v in o.items()])
    if isinstance(o, list):
        return ("l", [plain(v) for v in o])
    if isinstance(o, tuple):
        return ("t", [plain(v) for v in o])
    return (type(o).__name__, repr(o))


def read_globals():
    try:
        cwd = os.getcwd()
    except OSError:
        cwd = "<gone>"
    g = [cwd, argparse.Namespace]
    g += [parser_context_vars[n].get() for n in CTX_ORDER]
    g += [current_path_dir.get(), sub_defaults.get(), dict(os.environ)]
    return g


def same(a, b):
    try:
        return a is b or bool(a == b)
    except Exception:
        return False


def target(work, kind, name):
    """path of `name` in work/sub, the directory being reached plainly, through a symlink, relative to the cwd, or both"""
    d = os.path.join(work, "sub")
    if kind in ("symlink", "symrel"):
        d = os.path.join(work, "link")
        os.symlink(os.path.join(work, "sub"), d)
    p = os.path.join(d, name)
    if kind in ("rel", "symrel"):
        p = os.path.relpath(p, os.getcwd())
    return p


def run(case, base, idx):
    objs, val = build_heap(case["heap"])
    ids = {id(o): n for n, o in enumerate(objs)}
    p = ArgumentParser(exit_on_error=False)
    dflts = []
    # validate(cfg, branch="g"): every argument is declared below the branch key, the argument is the branch namespace
    prefix = "g." if case["op"]["op"] == "validate_branch" else ""
    for key, t, d in case["parser"]:
        dv = val(d)
        dflts.append(dv)
        if t[0] == "nargs":                       # a list-valued action
            p.add_argument("--" + prefix + key, type=mk_type(t[1]), nargs="*", default=dv)
        else:
            p.add_argument("--" + prefix + key, type=mk_type(t), default=dv)
    for g in case["op"].get("groups", []):
        p.add_class_arguments(GroupUnit, g)
    acts = {a.dest: a for a in p._actions}
    for (key, _, d), dv in zip(case["parser"], dflts):
        if "r" in d and acts[prefix + key].default is not dv:
            raise SystemExit("tie broken: add_argument copied the default object of --" + key)
    op = case["op"]
    kind = op["op"]
    work = os.path.join(base, "c%d" % idx)
    os.makedirs(os.path.join(work, "sub"))
    try:
        defaults_before = plain(p.get_defaults())
    except BaseException as e:
        defaults_before = ("exc", type(e).__name__)
    g_before = read_globals()
    ok, result, exc = True, None, ""
    try:
        if kind == "get_defaults":
            result = p.get_defaults()
        elif kind == "parse_object":
            result = p.parse_object(val(op["a"]))
        elif kind in ("parse_string", "parse_path"):
            text = json.dumps(build_tree(op["cells"], op["root"]))
            if kind == "parse_string":
                result = p.parse_string(text)
            else:
                f = target(work, op.get("dir", "plain"), "cfg.json")
                with open(f, "w") as fh:
                    fh.write(text)
                result = p.parse_path(f)
        elif kind == "validate":
            p.validate(val(op["a"]))
        elif kind == "validate_branch":
            p.validate(val(op["a"]), branch="g")
        elif kind == "dump":
            p.dump(val(op["a"]), skip_validation=op["skipval"])
        elif kind == "save":
            f = target(work, op.get("dir", "plain"), "out.yaml")
            if op["exists"]:
                with open(f, "w") as fh:
                    fh.write("a: 1\n")
            p.save(val(op["a"]), f)
        elif kind == "merge":
            result = p.merge_config(val(op["a"]), val(op["b"]))
        elif kind == "strip_unknown":
            result = p.strip_unknown(val(op["a"]))
        elif kind in ("instantiate", "instantiate_groups"):
            result = p.instantiate_classes(val(op["a"]))
        else:
            raise SystemExit("unknown op " + kind)
    except SystemExit:
        raise
    except BaseException as e:  # noqa: the property does not distinguish exception classes
        ok, result, exc = False, None, type(e).__name__
    g_after = read_globals()
    gl = [same(a, b) for a, b in zip(g_before, g_after)]
    # put the process back for the next case, whatever happened
    try:
        os.chdir(base)
    except OSError:
        pass
    argparse.Namespace = ORIG_ARGPARSE_NS
    after = [content(o, ids) for o in objs]
    try:
        defaults_after = plain(p.get_defaults())
    except BaseException as e:
        defaults_after = ("exc", type(e).__name__)
    res = view(result, ids) if ok else {"n": 0}
    shutil.rmtree(work, ignore_errors=True)
    return {"ok": ok, "result": res, "after": after, "globals": gl,
            "defaults_same": defaults_before == defaults_after, "exc": exc}


def main():
    payload = json.load(sys.stdin)
    os.makedirs(payload["scratch"], exist_ok=True)
    base = os.path.realpath(payload["scratch"])
    os.chdir(base)
    out = []
    try:
        for i, c in enumerate(payload["cases"]):
            out.append(run(c, base, i))
    finally:
        os.chdir("/")
        shutil.rmtree(base, ignore_errors=True)
    print(json.dumps(out))


main()

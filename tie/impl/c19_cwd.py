"""C19 runner, config-tree half: writes real nested config files into a scratch directory tree, loads them
with the real jsonargparse from a given working directory, and reports every resolved path value plus
(os.getcwd(), current_path_dir) afterwards. Each case runs in its own forked child, so a leaked working
directory cannot contaminate the next case.

stdin : {"cases": [case, ...]}   (see tie/props/c19.py: gen_cwd_case)
stdout: one JSON list; the scratch root of each case is written as /B.
"""
import json
import os
import shutil
import sys
import tempfile
from dataclasses import dataclass, field
import re
from typing import Dict, List, Optional

from jsonargparse import ActionConfigFile, ArgumentParser, Namespace
from jsonargparse._util import Path, current_path_dir
from jsonargparse.typing import Path_fr

try:
    from jsonargparse import ArgumentError
except ImportError:  # pragma: no cover
    from argparse import ArgumentError


@dataclass
class Leaf:
    p: Optional[Path_fr] = None
    lst: Optional[List[Path_fr]] = None


@dataclass
class Mid:
    leaf: Leaf = field(default_factory=Leaf)
    p: Optional[Path_fr] = None


def make_parser():
    parser = ArgumentParser(exit_on_error=False)
    parser.add_argument("--cfg", action=ActionConfigFile)
    parser.add_argument("--mid", type=Mid, default=Mid())
    parser.add_argument("--p", type=Optional[Path_fr])
    parser.add_argument("--lst", type=Optional[List[Path_fr]], enable_path=True)
    parser.add_argument("--dct", type=Optional[Dict[str, Path_fr]], enable_path=True)
    parser.add_argument("--many", type=Path_fr, nargs="+")
    return parser


def real(s, base):
    """/B/... in the case -> the scratch root"""
    if isinstance(s, str) and (s == "/B" or s.startswith("/B/")):
        return base + s[2:]
    return s


def render(nodes, base):
    """value of a mapping node + files to write, from the case tree"""
    out = {}
    for n in nodes:
        t = n["t"]
        if t == "path":
            out[n["key"]] = real(n["given"], base)
        elif t == "bad":
            out[n["key"]] = n["value"]
        elif t == "inline":
            out[n["key"]] = render(n["body"], base)
        elif t in ("inlist", "many"):
            out[n["key"]] = [real(g, base) for g in n["items"]]
        elif t == "dctinline":
            out[n["key"]] = {"k%d" % i: real(g, base) for i, g in enumerate(n["items"])}
        elif t == "dctfile":
            out[n["key"]] = real(n["given"], base)
            if n["at"] is not None:
                write(os.path.join(base, n["at"]), json.dumps({"k%d" % i: real(g, base) for i, g in enumerate(n["items"])}))
        elif t == "load":
            out[n["key"]] = real(n["given"], base)
            if n["at"] is not None:
                write(os.path.join(base, n["at"]), json.dumps(render(n["body"], base)) if n.get("wellformed", True) else "{a: [")
            else:
                render(n["body"], base)
        elif t == "seqfile":
            out[n["key"]] = real(n["given"], base)
            if n["at"] is not None:
                items = [real(g, base) for g in n["items"]]
                # one line of JSON (flow sequence), or a YAML block sequence
                text = json.dumps(items) if n.get("flow", True) or n["at"].endswith(".json") else "".join("- %s\n" % json.dumps(g) for g in items)
                write(os.path.join(base, n["at"]), text)
        elif t == "listfile":
            out[n["key"]] = real(n["given"], base)
            if n["at"] is not None:
                write(os.path.join(base, n["at"]), "".join(real(g, base) + "\n" for g in n["items"]))
        else:
            raise SystemExit("unknown node " + t)
    return out


def write(path, text):
    os.makedirs(os.path.dirname(path), exist_ok=True)
    with open(path, "w") as f:
        f.write(text)


def walk(v, pre):
    if isinstance(v, Path):
        yield pre, v
    elif isinstance(v, Namespace):
        for k, x in vars(v).items():
            if not k.startswith("__"):
                yield from walk(x, (pre + "." if pre else "") + k)
    elif isinstance(v, dict):
        for k, x in v.items():
            if not str(k).startswith("__"):
                yield from walk(x, (pre + "." if pre else "") + str(k))
    elif isinstance(v, list):
        for i, x in enumerate(v):
            yield from walk(x, "%s[%d]" % (pre, i))


def run_case(case, base):
    for d in case["dirs"]:
        os.makedirs(os.path.join(base, d), exist_ok=True)
    for f in case["files"]:
        write(os.path.join(base, f), "data\n")
    tops = case["tops"] if "tops" in case else [dict(case["top"], tree=case["tree"], kind="normal")]
    for top in tops:
        body = render(top["tree"], base)
        if top["at"] is None:
            continue
        if top["kind"] == "empty":
            write(os.path.join(base, top["at"]), "  \n\n")
        elif top["kind"] == "binary":
            os.makedirs(os.path.dirname(os.path.join(base, top["at"])), exist_ok=True)
            with open(os.path.join(base, top["at"]), "wb") as f:
                f.write(b"\xff\xfe p: 1\n")
        else:
            write(os.path.join(base, top["at"]), json.dumps(body) if top.get("wellformed", True) else "{a: [")
    # symbolic links to directories: [link (below the root), target (relative to the link's directory, or /B/...)]
    for link, target in case.get("links", []):
        os.symlink(real(target, base), os.path.join(base, link))
    # symbolic links to config / list FILES (created after the files were written; the target may be missing)
    for link, target in case.get("file_links", []):
        os.makedirs(os.path.dirname(os.path.join(base, link)), exist_ok=True)
        os.symlink(real(target, base), os.path.join(base, link))
    start = os.path.join(base, case["start"])
    listing = sorted("/B" + os.path.join(d, f)[len(base):] for d, _, fs in os.walk(base) for f in fs
                     if not os.path.islink(os.path.join(d, f)))  # the physical regular files
    dirs = sorted("/B" + d[len(base):] for d, _, _ in os.walk(base))  # the physical directories (links are not followed)
    os.chdir(start)
    givens = [real(t["given"], base) for t in tops]
    given = givens[0]

    def canon(s):
        if isinstance(s, str) and s.startswith(base):
            return "/B" + s[len(base):]
        return s

    parser = make_parser()
    entry = case["entry"]
    try:
        if entry == "args":
            cfg = parser.parse_args([a for g in givens for a in ("--cfg", g)])
        elif entry == "path":
            cfg = parser.parse_path(given)
        elif entry == "default":
            parser.default_config_files = givens
            cfg = parser.parse_args([])
        elif entry == "defaults_only":
            parser.default_config_files = givens
            cfg = parser.get_defaults()
        elif entry == "argmid":
            cfg = parser.parse_args(["--mid", given])
        elif entry == "argmid_eq":
            cfg = parser.parse_args(["--mid=" + given])
        else:
            raise SystemExit("unknown entry " + entry)
        items = {}
        for key, p in walk(cfg, ""):
            if key.split(".")[0].split("[")[0] in ("cfg",):
                continue
            key = re.sub(r"(^|\.)dct\.k(\d+)$", r"\1dct[\2]", key)   # the entries of the Dict[str, path] value by position
            items[key] = [canon(p.relative), canon(p.cwd), canon(p.absolute)]
        obs = {"ok": items}
    except ArgumentError as e:
        obs = {"fail": "ArgumentError"}
        if os.environ.get("C19_DEBUG"):
            obs["msg"] = str(e)
    except TypeError as e:
        # get_defaults() and parse_path() called directly let TypeError/PathError through; which exception
        # class a failed load surfaces as is property C03, not C19 — canonicalised to "fail"
        obs = {"fail": type(e).__name__}
    except OSError as e:
        # e.g. FileNotFoundError from os.chdir inside change_to_path_dir: not a documented error of parsing
        obs = {"oserr": type(e).__name__}
    except SystemExit as e:
        obs = {"other": "SystemExit(%r)" % (e.code,)}
    except BaseException as e:  # noqa
        obs = {"other": type(e).__name__}
        if os.environ.get("C19_DEBUG"):
            import traceback

            obs["msg"] = traceback.format_exc()[-1500:]
    try:
        after = canon(os.getcwd())
    except OSError:
        after = "<gone>"
    obs["cwd_after"] = after
    obs["cpd_after"] = canon(current_path_dir.get())
    obs["cwd_before"] = canon(start)
    obs["files"] = listing
    obs["dirs"] = dirs
    obs["links"] = [["/B/" + link, canon(os.path.realpath(os.path.join(base, link)))]
                    for link, _ in case.get("links", []) + case.get("file_links", [])]
    return obs


def in_child(case):
    # physical (os.getcwd() answers physical paths) and two levels below the scratch directory, so that a spelling
    # whose lexical normalisation climbs above the fixture root lands in a directory that certainly does not exist
    scratch = os.path.realpath(tempfile.mkdtemp(prefix="jv_c19c_"))
    base = os.path.join(scratch, "q", "B")
    os.makedirs(base)
    r, w = os.pipe()
    pid = os.fork()
    if pid == 0:
        os.close(r)
        code = 0
        try:
            res = run_case(case, base)
            with os.fdopen(w, "w") as f:
                json.dump(res, f)
        except BaseException as e:  # noqa
            sys.stderr.write("child failed: %r\n" % (e,))
            code = 3
        os._exit(code)
    os.close(w)
    with os.fdopen(r) as f:
        data = f.read()
    _, status = os.waitpid(pid, 0)
    shutil.rmtree(scratch, ignore_errors=True)
    if status != 0:
        raise SystemExit("c19_cwd child exited with status %d" % status)
    return json.loads(data)


def main():
    cases = json.load(sys.stdin)["cases"]
    print(json.dumps([in_child(c) for c in cases]))


if __name__ == "__main__":
    main()

"""C02 runner: one fresh ArgumentParser per query, the real jsonargparse from PYTHONPATH.
stdin : {"queries": [{"ty": T, "val": V, "ch": "obj"|"argv"}...], "strings": [s...], "groups": [...]}
stdout: {"obs": [...], "oracle": {s: V | ["yamlerr"] | ["valerr"]}, "groups": [...]}   (last line)
Type JSON  T: ["str"] ["int"] ["float"] ["bool"] ["none"] ["any"] ["lit",[V..]] ["enum",name,[members]] ["union",[T..]]
              ["list",T] ["dict","str"|"int",T] ["tuple",[T..]] ["tuplevar",T] ["set",T]
Value JSON V: ["none"] ["bool",b] ["int","<decimal>"] ["float","<repr>"] ["str",s] ["list",[V..]] ["tuple",[V..]] ["set",[V..]]
              ["dict",[[V,V]..]] ["enum",cls,member] ["opaque",kind,repr]
"""
import enum
import json
import sys
import typing
from typing import Any, Dict, List, Literal, Set, Tuple, Union

_enums = {}
REC_IDS = {}      # id(opaque hint class) -> member name, for the hints of the query being run
REC = []          # observed adapt_typehints(value, opaque hint): [name, value-json, result-json | None]


def opaque_classes():
    import decimal

    from jsonargparse import typing as jt

    return {"PositiveFloat": jt.PositiveFloat, "PositiveInt": jt.PositiveInt, "ClosedUnitInterval": jt.ClosedUnitInterval,
            "NonNegativeInt": jt.NonNegativeInt, "Decimal": decimal.Decimal, "Email": jt.Email, "NotEmptyStr": jt.NotEmptyStr,
            "StrColor": str_color(), "Picky": picky(), **pred_types()}


PRED = {}          # name -> [pattern, flag names]: restricted string types declared from a COMPILED pattern with flags
_pred_types = {}


def pred_types():
    import re

    from jsonargparse.typing import restricted_string_type

    for name, (pat, flags) in PRED.items():
        if name not in _pred_types:
            fl = 0
            for f in flags:
                fl |= getattr(re, f)
            _pred_types[name] = restricted_string_type(name, re.compile(pat, fl))
    return dict(_pred_types)


_tds = {}


def td_class(name, fields, optional=(), nontotal=False):
    """a TypedDict class; `optional` fields are declared NotRequired[...]; with `nontotal` the class is total=False and the
    other fields are declared Required[...]"""
    from typing import NotRequired, Required, TypedDict

    key = json.dumps([name, fields, list(optional), bool(nontotal)])
    if key not in _tds:
        ann = {}
        for f, t in fields:
            th = mk_ty(t)
            if f in optional:
                ann[f] = th if nontotal else NotRequired[th]
            else:
                ann[f] = Required[th] if nontotal else th
        _tds[key] = TypedDict(name, ann, total=not nontotal)
    return _tds[key]


_picky = []


def picky():
    """a user-registered type whose deserializer fails with exceptions of many kinds (a Union must treat each as 'this member
    does not accept')"""
    if not _picky:
        from jsonargparse.typing import register_type

        class Picky:
            def __init__(self, s):
                self.s = s

        def load(v):
            if isinstance(v, Picky):
                return v
            if isinstance(v, str) and v.startswith("p"):
                return Picky(v)
            if isinstance(v, bool):
                raise RuntimeError("no bools")
            if v is None:
                raise AttributeError("no None")
            if v == "" or v == [] or v == {}:
                raise IndexError("empty")
            if isinstance(v, int):
                raise LookupError("no ints")
            raise ValueError("not a Picky: %r" % (v,))

        register_type(Picky, serializer=lambda x: x.s, deserializer=load)
        _picky.append(Picky)
    return _picky[0]


_str_color = []


def str_color():
    if not _str_color:
        class StrColor(str, enum.Enum):     # a str-mixin Enum: goes through the Enum branch, is a subclass of str
            RED = "red"
            GREEN = "green"
        _str_color.append(StrColor)
    return _str_color[0]


def opaque_json(x):
    import decimal

    for name, cls in opaque_classes().items():
        if type(x) is cls:
            if isinstance(x, float):
                return ["opaque", name, repr(float(x))]
            if isinstance(x, int):
                return ["opaque", name, str(int(x))]
            if isinstance(x, decimal.Decimal):
                return ["opaque", name, str(x)]
            if isinstance(x, enum.Enum):
                return ["opaque", name, x.name]
            if name == "Picky":
                return ["opaque", name, x.s]
            if isinstance(x, str):
                return ["opaque", name, str(x)]
    return None


def install_recorder():
    import jsonargparse._typehints as th

    if getattr(th, "_c02_rec", False):
        return
    orig = th.adapt_typehints

    def wrapper(val, typehint, **kw):
        name = REC_IDS.get(id(typehint))
        if name is None:
            return orig(val, typehint, **kw)
        before = to_json(val)
        try:
            res = orig(val, typehint, **kw)
        except BaseException as e:   # noqa
            REC.append([name, before, ["err", "value" if isinstance(e, ValueError) else "type"]])
            raise
        REC.append([name, before, to_json(res)])
        return res

    th.adapt_typehints = wrapper
    th._c02_rec = True



def enum_cls(name, members):
    key = (name, tuple(members))
    if key not in _enums:
        _enums[key] = enum.Enum(name, {m: i + 1 for i, m in enumerate(members)})
    return _enums[key]


def mk_val(v):
    k = v[0]
    if k == "none":
        return None
    if k == "bool":
        return bool(v[1])
    if k == "int":
        return int(v[1])
    if k == "float":
        return float(v[1])
    if k == "str":
        return v[1]
    if k == "list":
        return [mk_val(x) for x in v[1]]
    if k == "tuple":
        return tuple(mk_val(x) for x in v[1])
    if k == "set":
        return {mk_val(x) for x in v[1]}
    if k == "dict":
        return {mk_val(a): mk_val(b) for a, b in v[1]}
    if k == "enum":
        return enum_cls(v[1], v[3])[v[2]]
    raise ValueError("value kind " + k)


def fresh():
    """typing caches subscriptions by EQUALITY of the arguments (Union[a, b] == Union[b, a]): without this, the second of two
    Unions with the same members inside one hint silently gets the order of the first"""
    for f in typing._cleanups:
        f()


def mk_ty(t):
    k = t[0]
    if k in ("lit", "union", "list", "dict", "tuple", "tuplevar", "set", "ann"):
        fresh()
    if k in ("str", "int", "float", "bool"):
        return {"str": str, "int": int, "float": float, "bool": bool}[k]
    if k == "none":
        return type(None)
    if k == "any":
        return Any
    if k == "lit":
        return Literal[tuple(mk_val(x) for x in t[1])]
    if k == "enum":
        return enum_cls(t[1], t[2])
    if k == "union":
        args = tuple(mk_ty(x) for x in t[1])
        fresh()
        return Union[args]
    if k == "list":
        a = mk_ty(t[1])
        fresh()
        return List[a]
    if k == "dict":
        a = mk_ty(t[2])
        fresh()
        return Dict[str if t[1] == "str" else int, a]
    if k == "tuple":
        args = tuple(mk_ty(x) for x in t[1])
        fresh()
        return Tuple[args]
    if k == "tuplevar":
        a = mk_ty(t[1])
        fresh()
        return Tuple[a, ...]
    if k == "set":
        a = mk_ty(t[1])
        fresh()
        return Set[a]
    if k == "ann":          # Annotated[T, <metadata that is no validator>]: the hint means T
        a = mk_ty(t[1])
        fresh()
        return typing.Annotated[a, "meta"]
    raise ValueError("type kind " + k)


def check_ty(t, th):
    """fail closed: typing must not have flattened / deduplicated / reordered what the case says"""
    k = t[0]
    if k == "ann":
        if typing.get_origin(th) is not typing.Annotated or th.__metadata__ != ("meta",):
            raise ValueError("typing changed the Annotated %r -> %r" % (t, th))
        return check_ty(t[1], th.__origin__)
    if typing.get_origin(th) is typing.Annotated:
        raise ValueError("unexpected Annotated %r -> %r" % (t, th))
    args = getattr(th, "__args__", None)
    if k == "union":
        if args is None or len(args) != len(t[1]) or typing.get_origin(th) is not Union:
            raise ValueError("typing changed the Union %r -> %r" % (t, th))
        for a, b in zip(t[1], args):
            check_ty(a, b)
    elif k == "lit":
        if args is None or len(args) != len(t[1]) or any(type(a) is not type(mk_val(b)) or a != mk_val(b) for a, b in zip(args, t[1])):
            raise ValueError("typing changed the Literal %r -> %r" % (t, th))
    elif k in ("list", "tuplevar", "set"):
        check_ty(t[1], args[0])
    elif k == "dict":
        check_ty(t[2], args[1])
    elif k == "tuple":
        if len(args) != len(t[1]):
            raise ValueError("tuple args")
        for a, b in zip(t[1], args):
            check_ty(a, b)


def set_key(x):
    if type(x) is int:
        return (0, x, "")
    if type(x) is str:
        return (1, 0, x)
    if type(x) is bool:
        return (2, int(x), "")
    return (3, 0, "")


def to_json(x):
    if x is None:
        return ["none"]
    if type(x) is bool:
        return ["bool", x]
    if type(x) is int:
        return ["int", str(x)]
    if type(x) is float:
        return ["float", repr(x)]
    if type(x) is str:
        return ["str", x]
    if type(x) is list:
        return ["list", [to_json(y) for y in x]]
    if type(x) is tuple:
        return ["tuple", [to_json(y) for y in x]]
    if type(x) in (set, frozenset):
        return ["set", [to_json(y) for y in sorted(x, key=set_key)]]
    if type(x) is dict:
        return ["dict", [[to_json(a), to_json(b)] for a, b in x.items()]]
    oj = opaque_json(x)
    if oj is not None:
        return oj
    if isinstance(x, enum.Enum):
        return ["enum", type(x).__name__, x.name]
    if isinstance(x, BaseException):
        return ["opaque", "exc", ""]
    return ["opaque", type(x).__name__, ""]


def run_query(q):
    from jsonargparse import ArgumentError, ArgumentParser

    # building the typing object and the input is harness work: a failure here is NOT an observation of the implementation
    try:
        fresh()
        th = mk_ty(q["ty"])
        check_ty(q["ty"], th)
        pyval = None if q["ch"] in ("argv", "nested") else mk_val(q["val"])
    except Exception as e:   # noqa
        return ["skip", "%s: %s" % (type(e).__name__, str(e)[:200])]
    p = ArgumentParser(exit_on_error=False)
    try:
        p.add_argument("--k", type=th)
    except BaseException as e:   # noqa
        return ["crash", "add_argument:" + type(e).__name__]
    try:
        if q["ch"] == "argv":
            r = p.parse_args(["--k=" + q["val"][1]])
        elif q["ch"] == "nested":        # --k.<key>=<text> on a Dict-typed key
            r = p.parse_args(["--k." + q["key"] + "=" + q["val"][1]])
        else:
            r = p.parse_object({"k": pyval})
    except ArgumentError:
        return ["rej"]
    except SystemExit as e:
        return ["crash", "SystemExit(%s)" % e.code]
    except BaseException as e:   # noqa
        return ["crash", type(e).__name__]
    return ["ok", to_json(r.k)]


def run_xquery(q):
    """{"ms": [T | ["opq", name]...], "dflt": V | None, "val": V, "ch": ...}: one member = the hint, several = Union"""
    from jsonargparse import ArgumentError, ArgumentParser

    install_recorder()
    try:
        fresh()
        oc = opaque_classes()
        hints = [oc[m[1]] if m[0] == "opq" else (td_class(m[1], m[2], m[3] if len(m) > 3 else (), len(m) > 4 and m[4] == "nontotal") if m[0] == "td" else mk_ty(m)) for m in q["ms"]]
        REC_IDS.clear()
        for m, h in zip(q["ms"], hints):
            if m[0] in ("opq", "td"):
                REC_IDS[id(h)] = m[1]
            else:
                check_ty(m, h)
        if len(hints) == 1:
            th = hints[0]
        else:
            fresh()
            th = Union[tuple(hints)]
            args = getattr(th, "__args__", ())
            if len(args) != len(hints) or any(a is not h and a != h for a, h in zip(args, hints)):
                raise ValueError("typing changed the Union %r -> %r" % (q["ms"], th))
        pyval = None if q["ch"] == "argv" else mk_val(q["val"])
        pydflt = None if q.get("dflt") is None else mk_val(q["dflt"])
    except Exception as e:   # noqa
        return ["skip", "%s: %s" % (type(e).__name__, str(e)[:200])]
    p = ArgumentParser(exit_on_error=False)
    kw = {} if q.get("dflt") is None else {"default": pydflt}
    try:
        p.add_argument("--k", type=th, **kw)
    except BaseException as e:   # noqa
        return ["crash", "add_argument:" + type(e).__name__]
    try:
        if q["ch"] == "argv":
            r = p.parse_args(["--k=" + q["val"][1]])
        else:
            r = p.parse_object({"k": pyval})
    except ArgumentError:
        return ["rej"]
    except SystemExit as e:
        return ["crash", "SystemExit(%s)" % e.code]
    except BaseException as e:   # noqa
        return ["crash", type(e).__name__]
    return ["ok", to_json(r.k)]


def fix_enum_vals(v, members_of):
    """["enum", cls, member] -> add the member list (needed to build the class)"""
    if v[0] == "enum":
        return ["enum", v[1], v[2], members_of[v[1]]]
    if v[0] in ("list", "tuple", "set"):
        return [v[0], [fix_enum_vals(x, members_of) for x in v[1]]]
    if v[0] == "dict":
        return ["dict", [[fix_enum_vals(a, members_of), fix_enum_vals(b, members_of)] for a, b in v[1]]]
    return v


def oracle(s):
    import yaml

    from jsonargparse._loaders_dumpers import yaml_load

    try:
        return to_json(yaml_load(s))
    except yaml.YAMLError:
        return ["yamlerr"]
    except ValueError:
        return ["valerr"]
    except BaseException as e:   # noqa
        return ["opaque", "loader-" + type(e).__name__, ""]


def strs_in(v, acc):
    if v[0] == "str":
        acc.append(v[1])
    elif v[0] in ("list", "tuple", "set"):
        for x in v[1]:
            strs_in(x, acc)
    elif v[0] == "dict":
        for a, b in v[1]:
            strs_in(a, acc)
            strs_in(b, acc)


def run_group(g):
    """a parser with group key 'g' holding typed fields; the input mapping gives 'g' a value"""
    from jsonargparse import ArgumentError, ArgumentParser

    p = ArgumentParser(exit_on_error=False)
    if g["style"] == "group":
        p.add_argument_group("G")
    for name, t in g["fields"]:
        p.add_argument("--g." + name, type=mk_ty(t), default=None)
    p.add_argument("--z", type=int, default=0)
    try:
        r = p.parse_object({"g": mk_val(g["val"])})
    except ArgumentError:
        return ["rej"]
    except BaseException as e:   # noqa
        return ["crash", type(e).__name__]
    gv = r.get("g") if "g" in r else None
    from jsonargparse import Namespace

    if isinstance(gv, Namespace):
        return ["ok", ["dict", [[["str", k], to_json(v)] for k, v in vars(gv).items()]]]
    return ["ok", to_json(gv)]


def main():
    req = json.load(sys.stdin)
    members_of = req.get("enums", {})
    PRED.update(req.get("pred", {}))
    def guarded(f, *a):
        # last resort: a harness-side error while observing ONE query must not take the batch down
        try:
            return f(*a)
        except Exception as e:   # noqa
            return ["skip", "runner: %s: %s" % (type(e).__name__, str(e)[:200])]

    def one(q):
        return run_query(dict(q, val=fix_enum_vals(q["val"], members_of)))

    def with_history(q):
        # a query with a HISTORY: the earlier parses and the query itself run in a forked child of this still pristine
        # process (nothing of jsonargparse has run in it), so the history is exactly the one the case states
        import os

        import jsonargparse  # noqa: imported (nothing parsed yet) so that the children need not import it again

        r, w = os.pipe()
        pid = os.fork()
        if pid == 0:
            try:
                os.close(r)
                for b in q["before"]:
                    guarded(one, b)
                out = guarded(one, q)
                os.write(w, json.dumps(out).encode())
            finally:
                os._exit(0)
        os.close(w)
        data = b""
        while True:
            chunk = os.read(r, 65536)
            if not chunk:
                break
            data += chunk
        os.close(r)
        os.waitpid(pid, 0)
        return json.loads(data.decode()) if data else ["skip", "history child gave no answer"]

    queries = req.get("queries", [])
    obs = [None] * len(queries)
    for i, q in enumerate(queries):          # first, while this process is pristine
        if q.get("before"):
            obs[i] = guarded(with_history, q)
    for i, q in enumerate(queries):
        if not q.get("before"):
            obs[i] = guarded(one, q)
    # the loader oracle needs a parser context for nothing: yaml_load is context free
    orc = {}
    todo = list(req.get("strings", []))
    for _ in range(4):            # closure: strings inside loaded values are loaded again by Any / leaf branches
        nxt = []
        for s in todo:
            if s not in orc:
                orc[s] = oracle(s)
                strs_in(orc[s], nxt)
        todo = nxt
    groups = [guarded(lambda g: run_group(dict(g, val=fix_enum_vals(g["val"], members_of))), g) for g in req.get("groups", [])]
    xobs = []
    for xq in req.get("xqueries", []):    # each: a list of queries sharing one record of opaque-member behaviour
        del REC[:]
        res = [guarded(run_xquery, q) for q in xq]
        xobs.append({"obs": res, "rec": list(REC)})
    sys.stdout.write("\n" + json.dumps({"obs": obs, "oracle": orc, "groups": groups, "xobs": xobs}) + "\n")


main()

"""C13 runner: for each case write the generated Python source to a real file in a scratch directory,
import it, ask the real jsonargparse what parameters it offers for the target class
(get_signature_parameters and ArgumentParser.add_class_arguments) and really instantiate the class with
several keyword sets. JSON in (stdin): {"cases": [{"sources": [one or two module texts], "target", "universe", "masks", "before": [names resolved first]}]}.
JSON out (last stdout line): list of observations."""
import importlib
import inspect
import json
import os
import re
import shutil
import sys
import tempfile

TYPES = {int: 0, float: 1, str: 2}


def canon_ann(a):
    if a is inspect._empty:
        return []
    if a in TYPES:
        return [TYPES[a]]
    args = getattr(a, "__args__", None)
    if args and all(x in TYPES for x in args):
        return [TYPES[x] for x in args]
    return ["?" + repr(a)]


def canon_default(d):
    if d is inspect._empty:
        return "req"
    if type(d).__name__ == "ConditionalDefault":
        return "cond"
    if type(d).__name__ == "UnknownDefault":
        return [5, 0]
    if type(d) is list and not d:
        return [3, 0]
    if type(d) is dict and not d:
        return [4, 0]
    if type(d) is int:
        return [0, d]
    if type(d) is float:
        return [1, int(d - 0.5)]
    if type(d) is str and re.fullmatch(r"v\d+", d):
        return [2, int(d[1:])]
    return "?" + repr(d)


def classify(ex):
    if not isinstance(ex, TypeError):
        return "other"
    m = str(ex)
    if "unexpected keyword argument" in m:
        return "unexpected"
    if "multiple values for" in m:
        return "multiple"
    if re.search(r"missing \d+ required", m):
        return "missing"
    if re.search(r"takes (from )?\d+( to \d+)? positional arguments? but", m):
        return "toomany"
    if "takes exactly one argument" in m or "takes no arguments" in m:
        return "objinit"
    return "other"


def try_call(cls, kws):
    try:
        obj = cls(**{k: 0 for k in kws})
        # kwargs kept in an attribute (self._kw<i> = kwargs): the consuming method a<i> is called right after construction
        for name in sorted(n for n in dir(obj) if re.fullmatch(r"a\d+", n)):
            if hasattr(obj, "_kw" + name[1:]):
                getattr(obj, name)()
        return "ok"
    except RecursionError:
        return "other"
    except Exception as ex:  # noqa
        return classify(ex)


def trial_sets(offered, universe, masks):
    names = [p["name"] for p in offered]
    req = [p["name"] for p in offered if p["default"] == "req"]
    sets = [list(names), list(req), list(reversed(names))]
    for n in names:
        if n not in req:
            sets.append(req + [n])
    extra = [u for u in universe if u not in names]
    for u in extra:
        sets.append(req + [u])
        sets.append(names + [u])
    pool = names + extra
    for m in masks:
        s = [x for i, x in enumerate(pool) if m >> i & 1]
        sets.append(s)
        sets.append([x for x in req if x not in s] + s)
    seen, out = set(), []
    for s in sets:
        k = tuple(s)
        if k not in seen and len(set(s)) == len(s):
            seen.add(k)
            out.append(s)
    return out[:40]


def main():
    payload = json.loads(sys.stdin.read())
    scratch = tempfile.mkdtemp(prefix="jv_c13_")
    sys.path.insert(0, scratch)
    from jsonargparse import ArgumentParser
    from jsonargparse._parameter_resolvers import get_parameters_from_ast, get_signature_parameters
    import logging

    null_logger = logging.getLogger("jv_c13_null")
    null_logger.addHandler(logging.NullHandler())
    null_logger.propagate = False
    res = []
    try:
        for n, case in enumerate(payload["cases"]):
            # one source file, or two: a library module and a module that imports some names from it ({LIB})
            srcs = case["sources"] if "sources" in case else [case["source"]]
            modname = "jvc13_%d_%d" % (os.getpid(), n)
            libname = modname + "_lib"
            if len(srcs) == 2:
                with open(os.path.join(scratch, libname + ".py"), "w") as f:
                    f.write(srcs[0])
            with open(os.path.join(scratch, modname + ".py"), "w") as f:
                f.write(srcs[-1].replace("{LIB}", libname))
            importlib.invalidate_caches()
            mod = importlib.import_module(modname)
            cls = getattr(mod, case["target"])
            # history: other callables of the same program resolved earlier in this process, in the given order; what is
            # offered for the target afterwards must not depend on it
            for name in case.get("before", []):
                obj = getattr(mod, name, None) or getattr(sys.modules.get(libname), name, None)
                if obj is not None:
                    try:
                        get_signature_parameters(obj, None, null_logger)
                    except Exception:  # noqa
                        pass
            obs = {}
            obs["mro"] = [int(c.__name__[1:]) for c in cls.__mro__ if c is not object]
            try:
                params = get_signature_parameters(cls)
                obs["offered"] = [
                    {
                        "name": p.name,
                        "ann": canon_ann(p.annotation),
                        "default": canon_default(p.default),
                        "kwonly": p.kind == inspect.Parameter.KEYWORD_ONLY,
                        "otup": isinstance(p.origin, tuple),
                    }
                    for p in params
                ]
            except Exception as ex:  # noqa
                obs["offered"] = [{"name": "<raised %s>" % type(ex).__name__, "ann": [], "default": "req", "kwonly": False, "otup": False}]
            if case.get("light"):  # stand-alone answer only (pristine process, no history): no parser, no calls
                res.append(obs)
                sys.modules.pop(modname, None)
                sys.modules.pop(libname, None)
                continue
            try:
                get_parameters_from_ast(cls, None, null_logger)
                obs["ast_raised"] = False
            except Exception:  # noqa
                obs["ast_raised"] = True
            try:
                parser = ArgumentParser(exit_on_error=False)
                parser.add_class_arguments(cls, "c")
                obs["parser"] = [a.dest[2:] for a in parser._actions if a.dest.startswith("c.") and not a.dest.endswith(".help")]
            except Exception as ex:  # noqa
                obs["parser"] = ["<raised %s>" % type(ex).__name__]
            obs["trials"] = [[s, try_call(cls, s)] for s in trial_sets(obs["offered"], case["universe"], case["masks"])]
            res.append(obs)
            sys.modules.pop(modname, None)
            sys.modules.pop(libname, None)
    finally:
        shutil.rmtree(scratch, ignore_errors=True)
    print(json.dumps(res))


if __name__ == "__main__":
    main()

"""C01 runner: builds a real parser per case, obtains an accepted configuration, serialises it with the requested
variant (dump / --print_config / save) and parses the text back with the same parser.  Observes
  cfg0      the accepted configuration (flat: dotted leaf key -> value)
  dumped    the Python data handed to the dumper (captured at dump_using_format), flattened along the declaration
  text      the emitted text
  reloaded  what the loader of the parser's mode makes of the text, flattened along the declaration
  cfg1      the re-parsed configuration (flat) or the error kind
  strs      for every str in `dumped` (values and keys): whether yaml_dump writes it plain, what yaml_load reads
            for that text alone
  floats    for every float in `dumped`: the text the yaml / json dumper writes for it alone
JSON in on stdin ({"cases": [...]}) / JSON out on the last stdout line."""
import collections
import contextlib
import enum
import io
import json
import math
import os
import shutil
import sys
import tempfile
from decimal import Decimal
from typing import Any, Dict, List, Literal, Optional, Set, Tuple, Union

import jsonargparse
from jsonargparse import ArgumentParser, Namespace
from jsonargparse import _core, _loaders_dumpers as ld
from jsonargparse._namespace import strip_meta


class Color(enum.Enum):
    RED = 1
    GREEN = 2
    BLUE = 3


class Sw(enum.Enum):      # member names that YAML takes for booleans / null
    on = 1
    off = 2
    null = 3
    yes = 4
    no = 5
    true = 6


ENUMS = {"Color": Color, "Sw": Sw}


# classes for subclass-typed arguments (the harness's table SUBCLASSES in tie/props/c01.py lists the same parameters)
class Base:
    def __init__(self, a: int = 1, name: Optional[str] = None):
        self.a, self.name = a, name


class Sub(Base):
    def __init__(self, b: int = 2, flag: Optional[bool] = True, **kwargs):
        super().__init__(**kwargs)
        self.b, self.flag = b, flag


class KW(Base):      # nothing jsonargparse can turn into init_args: settings travel as dict_kwargs
    def __init__(self, **kwargs):
        super().__init__()
        self.kwargs = kwargs


CLASSES = {"Base": Base}
DATACLASSES = {}      # name -> dataclass, built per request from the harness's field table (payload["dataclasses"])


def build_dataclasses(table):
    import dataclasses

    for name, fields in table:      # in dependency order
        fl = []
        for fname, ftype, fdef in fields:
            d = dec(fdef)
            if isinstance(d, (list, dict, set)):
                fl.append((fname, ty(ftype), dataclasses.field(default_factory=(lambda d=d: json.loads(json.dumps(d))))))
            else:
                fl.append((fname, ty(ftype), dataclasses.field(default=d)))
        DATACLASSES[name] = dataclasses.make_dataclass(name, fl)


# ---- tagged JSON <-> Python values ------------------------------------------------------------------------------
def dec(v):
    if isinstance(v, list):
        return [dec(x) for x in v]
    if isinstance(v, dict):
        if "$f" in v:
            return float(v["$f"])
        if "$t" in v:
            return tuple(dec(x) for x in v["$t"])
        if "$s" in v:
            return set(dec(x) for x in v["$s"])
        if "$e" in v:
            return ENUMS[v["$e"][0]][v["$e"][1]]
        if "$d" in v:
            return {dec(k): dec(x) for k, x in v["$d"]}
        if "$od" in v:
            return collections.OrderedDict((dec(k), dec(x)) for k, x in v["$od"])
        return {k: dec(x) for k, x in v.items()}
    return v


def sort_key(v):
    return (type(v).__name__, repr(v))


def enc(v):
    """Python value -> tagged JSON, hash-ordered containers in canonical order, dict items sorted by key."""
    if v is None or isinstance(v, (bool, str)):
        return v
    if isinstance(v, int):
        return v
    if isinstance(v, float):
        return {"$f": repr(v)}
    if isinstance(v, enum.Enum):
        return {"$e": [type(v).__name__, v.name]}
    if isinstance(v, list):
        return [enc(x) for x in v]
    if isinstance(v, tuple):
        return {"$t": [enc(x) for x in v]}
    if isinstance(v, (set, frozenset)):
        items = list(v)                         # iteration order of this very object ...
        try:                                    # ... put in the order a set is serialised in (since /repo 42b663b)
            items = sorted(items, key=lambda x: (type(x).__name__, x))
        except TypeError:
            pass
        return {"$s": [enc(x) for x in items]}
    if isinstance(v, Namespace):
        v = v.as_dict()
    if isinstance(v, dict):
        return {"$d": [[enc(k), enc(x)] for k, x in sorted(v.items(), key=lambda kv: sort_key(kv[0]))]}
    return {"$o": [type(v).__name__, repr(v)[:80]]}


def ty(t):
    if isinstance(t, str):
        return {"str": str, "int": int, "float": float, "bool": bool, "any": Any}[t]
    k = t[0]
    if k == "opt":
        return Optional[ty(t[1])]
    if k == "union":
        return Union[tuple(ty(x) for x in t[1])]
    if k == "list":
        return List[ty(t[1])]
    if k == "dict":
        return Dict[str, ty(t[1])]
    if k == "dict_int":
        return Dict[int, ty(t[1])]
    if k == "odict":
        import typing
        return typing.OrderedDict[str, ty(t[1])]
    if k == "tuple":
        return Tuple[tuple(ty(x) for x in t[1])]
    if k == "tuplevar":
        return Tuple[ty(t[1]), ...]
    if k == "set":
        return Set[ty(t[1])]
    if k == "lit":
        return Literal[tuple(t[1])]
    if k == "enum":
        return ENUMS[t[1]]
    if k == "dc":
        return DATACLASSES[t[1]]
    if k == "sub":
        return CLASSES[t[1]]
    raise ValueError("unknown type %r" % (t,))


def untype(tp):
    """the type hint object as it really is (typing caches List[Union[float, int]] and List[Union[int, float]] as one
    object, Optional[Union[..]] is flattened): member order as the parser will see it"""
    import typing
    if tp is str:
        return "str"
    if tp is int:
        return "int"
    if tp is float:
        return "float"
    if tp is bool:
        return "bool"
    if tp is Any:
        return "any"
    if tp is type(None):
        return "none"
    if isinstance(tp, type) and issubclass(tp, enum.Enum):
        return ["enum", tp.__name__]
    if isinstance(tp, type) and DATACLASSES.get(tp.__name__) is tp:
        return ["dc", tp.__name__]
    if isinstance(tp, type) and CLASSES.get(tp.__name__) is tp:
        return ["sub", tp.__name__]
    origin = typing.get_origin(tp)
    args = typing.get_args(tp)
    if origin is Union:
        return ["union", [untype(a) for a in args]]
    if origin is Literal:
        return ["lit", list(args)]
    if origin is list:
        return ["list", untype(args[0])]
    if origin is set:
        return ["set", untype(args[0])]
    if origin is dict:
        return ["dict_int" if args[0] is int else "dict", untype(args[1])]
    if origin is collections.OrderedDict:
        return ["odict", untype(args[1])]
    if origin is tuple:
        if len(args) == 2 and args[1] is Ellipsis:
            return ["tuplevar", untype(args[0])]
        return ["tuple", [untype(a) for a in args]]
    raise ValueError("cannot read back type %r" % (tp,))


def leaves(decl, prefix=""):
    for name, node in decl:
        if "grp" in node:
            yield from leaves(node["grp"], prefix + name + ".")
        else:
            yield prefix + name, node


def add_leaves(p, decl):
    for key, node in leaves(decl):
        kw = {"nargs": node["nargs"]} if node.get("nargs") else {}
        p.add_argument("--" + key, type=ty(node["ty"]), default=dec(node["def"]), **kw)


def build_parser(decl, case=None):
    """top-level parser; a declaration node marked "sub" is a subcommand (its own parser with its own --cfg), next to a
    second subcommand `other` so that there is a choice to be made"""
    case = case or {}
    p = ArgumentParser(exit_on_error=False, default_env=False)
    p.add_argument("--cfg", action="config")
    add_leaves(p, [[n, node] for n, node in decl if not node.get("sub")])
    subs = [[n, node] for n, node in decl if node.get("sub")]
    p._jv_subparsers = {}
    if subs:
        sc = p.add_subcommands(required=case.get("sub_required", True))
        for n, node in subs:
            sp = ArgumentParser(exit_on_error=False, default_env=False)
            sp.add_argument("--cfg", action="config")
            add_leaves(sp, node["grp"])
            sc.add_subcommand(n, sp)
            p._jv_subparsers[n] = sp
        other = ArgumentParser(exit_on_error=False, default_env=False)
        other.add_argument("--z", type=int, default=0)
        sc.add_subcommand("other", other)
    if case.get("header"):          # comment lines put in front of every YAML dump
        for q in [p] + list(p._jv_subparsers.values()):
            q.dump_header = list(case["header"])
    return p


def all_defaults(parser, decl):
    """declared defaults in force, leaf by declared leaf (a subcommand's leaves: from its own parser)"""
    top = parser.get_defaults()
    subd = {n: sp.get_defaults() for n, sp in parser._jv_subparsers.items()}
    out = []
    for key, _ in leaves(decl):
        head, _, rest = key.partition(".")
        out.append([key, enc(subd[head][rest] if head in subd else top[key])])
    return out


MISSING = {"$absent": True}


def flatten_along(decl, data, prefix=""):
    """nested dict -> ([dotted leaf key, encoded value] for present leaves, [unexpected keys])"""
    flat, extra = [], []
    if not isinstance(data, dict):
        return flat, [prefix + "<not a mapping: %s>" % type(data).__name__]
    names = set()
    for name, node in decl:
        names.add(name)
        if name not in data:
            continue
        if "grp" in node:
            f, e = flatten_along(node["grp"], data[name], prefix + name + ".")
            flat += f
            extra += e
        else:
            flat.append([prefix + name, enc(data[name])])
    extra += [prefix + str(k) for k in data if k not in names]
    return flat, extra


def flat_cfg(cfg, decl, sub=None):
    """the configuration leaf by declared leaf (a dataclass-typed value is a Namespace INSIDE a leaf, not a group)"""
    flat, extra = flatten_along(decl, ns_dict(strip_meta(cfg)))
    extra = [k for k in extra if k != "cfg" and not k.endswith(".cfg") and not (k == "subcommand" and cfg.get("subcommand") == sub)]
    return sorted(flat, key=lambda kv: kv[0]) + [["<unexpected>." + k, None] for k in extra]


def ns_dict(ns):
    """one level at a time: groups become dicts, leaf values (also Namespaces of dataclass-typed values) stay"""
    return {k: (ns_dict(v) if isinstance(v, Namespace) else v) for k, v in vars(ns).items()}


def err_kind(e):
    if isinstance(e, jsonargparse.ArgumentError):
        return "ArgumentError"
    if isinstance(e, SystemExit):
        return "SystemExit"
    return type(e).__name__


def collect(v, strs, floats):
    if isinstance(v, str):
        strs.add(v)
    elif isinstance(v, float):
        floats.add(repr(v))
    elif isinstance(v, (list, tuple, set)):
        for x in v:
            collect(x, strs, floats)
    elif isinstance(v, dict):
        for k, x in v.items():
            collect(k, strs, floats)
            collect(x, strs, floats)


def load_alone(text):
    try:
        return {"val": enc(ld.yaml_load(text))}
    except ld.get_loader_exceptions("yaml") as e:
        return {"err": "yaml"}
    except ValueError:
        return {"err": "value"}
    except Exception as e:
        return {"err": type(e).__name__}


def run_step(parser, step, scratch, n):
    op = step["op"]
    if op == "dump":                      # an earlier dump of the parser's own defaults
        cfg = parser.parse_args([])
        parser.dump(cfg, format=step.get("format", "yaml"), skip_none=step.get("skip_none", False),
                    skip_default=step.get("skip_default", False))
    elif op == "parse":                   # an earlier parse
        with contextlib.suppress(jsonargparse.ArgumentError, SystemExit):
            parser.parse_object(dec(step["obj"]))
    elif op == "rejected_parse":          # an earlier command line that is rejected part-way (caller catches the error)
        with contextlib.suppress(jsonargparse.ArgumentError, SystemExit):
            parser.parse_args(list(step["argv"]))
    elif op == "set_defaults":            # the declared defaults change
        parser.set_defaults({k: dec(v) for k, v in step["values"]})
    elif op == "default_config":          # a default config file appears
        path = os.path.join(scratch, "dflt%d_%d.yaml" % (n, step.get("i", 0)))
        with open(path, "w") as f:
            f.write(ld.yaml_dump(dec(step["content"])))
        parser.default_config_files = [path]
    else:
        raise ValueError("unknown history step %r" % (op,))


def run_case(case, scratch):
    decl, variant = case["decl"], case["variant"]
    out = {"status": "ok"}
    captured = []
    orig_duf = _core.dump_using_format

    def spy(parser, data, fmt):
        captured.append(data)
        return orig_duf(parser, data, fmt)

    try:
        parser = build_parser(decl, case)
    except Exception as e:
        return {"status": "build:" + err_kind(e), "msg": str(e)[:200]}
    # ---- what happened to this parser object before (the answers must not depend on it)
    try:
        for step in case.get("history", []):
            run_step(parser, step, scratch, case.get("n", 0))
    except Exception as e:
        return {"status": "history:" + err_kind(e), "msg": str(e)[:300]}
    # ---- the accepted configuration
    try:
        if "argv" in case:
            cfg0 = parser.parse_args(list(case["argv"]))
        else:
            cfg0 = parser.parse_object(dec(case["obj"]))
    except (jsonargparse.ArgumentError, SystemExit) as e:
        return {"status": "rejected", "msg": str(e)[:200]}
    except Exception as e:
        return {"status": "crash0:" + err_kind(e), "msg": str(e)[:200]}
    sub = case.get("sub")
    sub0 = cfg0.get("subcommand") if sub else None      # the subcommand the accepted configuration chose (None: none)
    out["sub_chosen"] = sub0
    out["cfg0"] = flat_cfg(cfg0, decl, sub0)
    dflt = parser.get_defaults()        # what a missing key is given, and what skip_default compares with
    out["defs"] = all_defaults(parser, decl)
    # a leaf with nargs='+' holds a list of values of its type
    out["types"] = [[key, ["list", untype(ty(node["ty"]))] if node.get("nargs") else untype(ty(node["ty"]))] for key, node in leaves(decl)]
    # ---- serialise
    kind = variant["kind"]
    fmt = variant.get("format", "yaml")
    text = None
    path = os.path.join(scratch, "c%d.%s" % (case.get("n", 0), "json" if fmt.startswith("json") else "yaml"))
    _core.dump_using_format = spy
    try:
        if kind == "dump":
            kw = {"format": fmt, "skip_none": variant.get("skip_none", False), "skip_default": variant.get("skip_default", False)}
            text = parser.dump(cfg0, **kw)
        elif kind == "save":
            kw = {"format": fmt}
            if variant.get("skip_none") is not None:
                kw["skip_none"] = variant["skip_none"]
            parser.save(cfg0, path, **kw)
            text = open(path).read()
        elif kind == "print_config":
            flags = variant.get("flags", "")
            buf = io.StringIO()
            try:
                pc = "--print_config" + ("=" + flags if flags else "")
                with contextlib.redirect_stdout(buf):       # pc_at: inside the subcommand (its part only) or before it
                    parser.parse_args([pc] + list(case["argv"]) if variant.get("pc_at") == "top" else list(case["argv"]) + [pc])
                return {"status": "crash1:print_config did not exit"}
            except SystemExit as e:
                if e.code not in (0, None):
                    return dict(out, status="crash1:print_config exit %r" % (e.code,))
            text = buf.getvalue()
            with open(path, "w") as f:
                f.write(text)
        else:
            return {"status": "build:unknown variant"}
    except Exception as e:
        return dict(out, status="crash1:" + err_kind(e), msg=str(e)[:300])
    finally:
        _core.dump_using_format = orig_duf
    out["text"] = text
    if kind != "print_config":      # the very object that was handed to dump / save, looked at again
        try:
            out["cfg0_after"] = flat_cfg(cfg0, decl, sub0)
        except Exception as e:
            out["cfg0_after"] = {"$err": err_kind(e)}
    data = captured[-1] if captured else None
    in_sub = bool(kind == "print_config" and sub and variant.get("pc_at") != "top")     # the subcommand's part only
    if in_sub and data is not None:
        data = {sub: data}
    out["dumped"], out["dumped_extra"] = flatten_along(decl, data)
    strs, floats = set(), set()
    collect(data, strs, floats)
    # ---- what the loader reads
    try:
        rel = ld.yaml_load(text)
        if rel is None:
            rel = {}
        if in_sub:
            rel = {sub: rel}
        out["reloaded"], out["reloaded_extra"] = flatten_along(decl, rel)
    except Exception as e:
        out["reloaded"], out["reloaded_extra"] = {"$err": err_kind(e)}, []
    # ---- parse back with the same parser
    try:
        if kind == "dump":
            cfg1 = parser.parse_string(text)
        elif kind == "save":
            cfg1 = parser.parse_path(path)
        else:
            cfg1 = parser.parse_args([sub, "--cfg", path] if in_sub else ["--cfg", path])
        out["cfg1"] = flat_cfg(cfg1, decl, sub0)
    except (jsonargparse.ArgumentError, SystemExit) as e:
        out["cfg1"] = {"$err": "rejected", "msg": str(e)[:200]}
    except Exception as e:
        out["cfg1"] = {"$err": err_kind(e), "msg": str(e)[:200]}
    # ---- scalar oracle
    try:
        collect(ld.yaml_load(text), strs, set())
    except Exception:
        pass
    for _, v in cfg0.items():
        collect(v, strs, set())
    for sp in parser._jv_subparsers.values():
        for _, v in sp.get_defaults().items():
            collect(v, strs, set())
    for _, v in dflt.items():            # the model serialises the declared defaults too (skip_default, class 8)
        collect(v, strs, set())
    so = []
    for s in sorted(strs):
        try:
            alone = ld.yaml_dump(s)
        except Exception:
            alone = None
        plain = False
        if alone is not None:
            body = alone[:-1] if alone.endswith("\n") else alone
            if body.endswith("\n..."):
                body = body[:-4]
            plain = body == s
        so.append([s, plain, load_alone(s)])
    out["strs"] = so
    fo = []
    for r in sorted(floats):
        x = float(r)
        y = ld.yaml_dump(x)
        y = y[:-1] if y.endswith("\n") else y
        if y.endswith("\n..."):
            y = y[:-4]
        fo.append([r, y, json.dumps(x)])
    out["floats"] = fo
    return out


def run_forked(case, scratch):
    r, w = os.pipe()
    pid = os.fork()
    if pid == 0:
        code = 0
        try:
            os.close(r)
            try:
                out = run_case(case, scratch)
            except Exception as e:
                out = {"status": "runner:" + type(e).__name__, "msg": str(e)[:300]}
            with os.fdopen(w, "w") as f:
                f.write(json.dumps(out))
        except BaseException:
            code = 1
        os._exit(code)
    os.close(w)
    with os.fdopen(r) as f:
        data = f.read()
    os.waitpid(pid, 0)
    return json.loads(data) if data else {"status": "runner:child died"}


def main():
    req = json.load(sys.stdin)
    build_dataclasses(req.get("dataclasses", []))
    scratch = tempfile.mkdtemp(prefix="jv_c01_")
    res = []
    try:
        os.chdir(scratch)
        for n, case in enumerate(req["cases"]):
            case = dict(case, n=n)
            try:
                # a case with a history runs in a forked child: what its history leaves behind in the process (context
                # variables, caches) must show in ITS round trip and must not leak into the cases after it
                res.append(run_forked(case, scratch) if case.get("history") else run_case(case, scratch))
            except Exception as e:
                res.append({"status": "runner:" + type(e).__name__, "msg": str(e)[:300]})
    finally:
        os.chdir("/")
        shutil.rmtree(scratch, ignore_errors=True)
    print(json.dumps(res))


main()

"""Classes instantiated by the C08 'instantiate twice' runner (tie/impl/c08_inst.py). Every instance keeps its
constructor arguments as attributes of the same name so that the runner can walk the built object tree."""
from typing import Any, List, Optional

from jsonargparse import lazy_instance


class Base:
    pass


class Unit(Base):
    """nothing to configure: no init_args at all"""

    def __init__(self):
        pass


class Leaf(Base):
    def __init__(self, x: int = 1):
        self.x = x


class Open(Base):
    """takes arbitrary extra keyword arguments: specs for it may carry dict_kwargs"""

    def __init__(self, x: int = 1, **kwargs):
        self.x = x
        self.kwargs = kwargs


class Node(Base):
    def __init__(self, child: Base, n: int = 0):
        self.child = child
        self.n = n


class Pair(Base):
    """both sub-objects come from SIGNATURE DEFAULTS unless given"""

    def __init__(self, left: Base = lazy_instance(Leaf, x=5), right: Optional[Base] = None, n: int = 2):
        self.left = left
        self.right = right
        self.n = n


class Bag(Base):
    def __init__(self, elems: List[Base], n: int = 0):
        self.elems = elems
        self.n = n


class Holder(Base):
    """a lazy_instance signature default on a parameter annotated Any"""

    def __init__(self, extra: Any = lazy_instance(Leaf, x=4), n: int = 0):
        self.extra = extra
        self.n = n


class Deep(Base):
    """a default that itself holds a default-derived spec"""

    def __init__(self, inner: Base = lazy_instance(Pair, n=7)):
        self.inner = inner

"""C06 runner: build a real jsonargparse parser from a declaration tree, hand it a configuration tree
through one channel, report accept / the key named by the ArgumentError.

stdin : {"cases": [{"parser": {...}, "cfg": {...}, "channel": "object|string|argvcfg|envcfg"}, ...]}
stdout: last line = JSON list of observations
  {"r": "accept"} | {"r": "unknown", "fam": 0|1|2, "grp": [...], "key": [...]} | {"r": "badspec", "extra": [...]}
  | {"r": "missing", "key": [...]} | {"r": "nosub", "dest": str} | {"r": "other", "what": str}
"""
import ast
import contextlib
import copy
import json
import re
import sys
import types
import warnings

MOD = "c06gen"


class Src:
    """Python source of the dataclasses / classes a declaration tree needs."""

    def __init__(self):
        self.lines = [
            "from dataclasses import dataclass, field",
            "from typing import List, Optional",
        ]
        self.n = 0

    def fresh(self, p):
        self.n += 1
        return "%s%d" % (p, self.n)

    def params(self, fs):
        """[(name, annotation, default-or-None)] for dataclass fields / __init__ parameters."""
        out = []
        for name, d in fs:
            k = d[0]
            if k == "arg":
                out.append((name, "int", None if d[1] else "1"))
            elif k == "hidden":  # private parameter with a default: present in the source, skipped by the parser
                out.append((name, "int", "5"))
            elif k == "data":
                out.append((name, self.dataclass(d[2]), None))
            elif k == "class":
                base = self.classes(d[2])
                out.append((name, base, None) if d[1] else (name, "Optional[%s]" % base, "None"))
            elif k == "list":
                out.append((name, "List[%s]" % self.dataclass(d[1]), "LIST"))
            elif k == "odata":
                out.append((name, "Optional[%s]" % self.dataclass(d[1]), "None"))
            else:
                raise ValueError("no %s inside a class" % k)
        return out

    def dataclass(self, fs):
        ps = self.params(fs)
        name = self.fresh("D")
        self.lines.append("@dataclass\nclass %s:" % name)
        for n, a, dflt in ps:
            if dflt is None:
                self.lines.append("    %s: %s" % (n, a))
            elif dflt == "LIST":
                self.lines.append("    %s: %s = field(default_factory=list)" % (n, a))
            else:
                self.lines.append("    %s: %s = %s" % (n, a, dflt))
        if not ps:
            self.lines.append("    pass")
        return name

    def classes(self, cls):
        base = self.fresh("B")
        self.lines.append("class %s:\n    pass" % base)
        for cname, fs in cls:
            ps = self.params(fs)
            sig = ["self"]
            for n, a, dflt in ps:
                if dflt is None:
                    sig.append("%s: %s" % (n, a))
                elif dflt == "LIST":
                    sig.append("%s: Optional[%s] = None" % (n, a))
                else:
                    sig.append("%s: %s = %s" % (n, a, dflt))
            self.lines.append("class %s(%s):\n    def __init__(%s):\n        pass" % (cname, base, ", ".join(sig)))
        return base


def add_args(parser, ns, src, prefix, fs, todo):
    from typing import List

    for name, d in fs:
        key = prefix + name
        k = d[0]
        if k == "arg":
            todo.append(("arg", key, d[1], None))
        elif k == "group":
            add_args(parser, ns, src, key + ".", d[1], todo)
        elif k == "data":
            todo.append(("type", key, False, src.dataclass(d[2])))
        elif k == "class":
            todo.append(("type", key, d[1], src.classes(d[2])))
        elif k == "list":
            todo.append(("list", key, False, src.dataclass(d[1])))


def build(pdesc, default_env=False):
    from typing import List

    from jsonargparse import ArgumentParser

    src = Src()
    plan = []  # (parser-id, todo)
    top_todo = []
    add_args(None, None, src, "", pdesc["args"], top_todo)
    sub_todos = []
    if pdesc.get("sub"):
        for sname, sargs in pdesc["sub"]["map"]:
            t = []
            add_args(None, None, src, "", sargs, t)
            sub_todos.append((sname, t))
    mod = types.ModuleType(MOD)
    sys.modules[MOD] = mod
    exec("\n".join(src.lines), mod.__dict__)
    for v in list(mod.__dict__.values()):
        if isinstance(v, type) and v.__module__ != MOD:
            try:
                v.__module__ = MOD
            except Exception:
                pass

    def fill(p, todo):
        for kind, key, req, tname in todo:
            if kind == "arg":
                if req:
                    p.add_argument("--" + key, type=int, required=True)
                else:
                    p.add_argument("--" + key, type=int, default=1)
            elif kind == "type":
                t = getattr(mod, tname)
                if req:
                    p.add_argument("--" + key, type=t, required=True)
                else:
                    p.add_argument("--" + key, type=t)
            elif kind == "list":
                p.add_argument("--" + key, type=List[getattr(mod, tname)], default=[])

    p = ArgumentParser(exit_on_error=False, env_prefix="APP", default_env=default_env)
    p.add_argument("--cfg", action="config")
    fill(p, top_todo)
    if pdesc.get("sub"):
        sc = p.add_subcommands(required=pdesc["sub"]["req"], dest=pdesc["sub"]["dest"])
        for sname, t in sub_todos:
            sp = ArgumentParser(exit_on_error=False)
            fill(sp, t)
            sc.add_subcommand(sname, sp)
    # construction history: link_arguments attempts (apply_on="instantiate"), some of which the library rejects; the
    # program catches the ValueError and goes on, as an application with optional wiring would
    outcomes = []
    for ln in pdesc.get("links") or []:
        try:
            p.link_arguments(ln["src"], ".".join(ln["tgt"]), compute_fn=_three, apply_on="instantiate")
            outcomes.append(True)
        except ValueError:
            outcomes.append(False)
    LAST_LINK_OUTCOMES[:] = outcomes
    return p


def _three(*_):
    return 3


LAST_LINK_OUTCOMES = []


FAMILIES = [
    ("key", re.compile(r"Key '([^']*)' is not expected")),
    ("group", re.compile(r"Group '([^']*)' does not accept nested key '([^']*)'")),
    ("sub", re.compile(r"Subcommand '([^']*)' does not accept nested key '([^']*)'")),
    ("badspec", re.compile(r"Not a valid subclass of \w+\. Got value: (.*?)\n\s*Subclass types expect", re.S)),
    ("badspec", re.compile(r"Not a valid subclass of \w+\n.*?Given value: ((?:OrderedDict\(|defaultdict\([^{]*)?\{.*?)$", re.S | re.M)),
    ("missing", re.compile(r'Key "([^"]*)" is required but not included in config object or its value is None')),
    ("nosub", re.compile(r'expected "([^"]*)" to be one of .*?, but (?:it was not provided|got \'zz\')')),
]


def classify(msg):
    best = None
    for name, rx in FAMILIES:
        m = rx.search(msg)
        if m and (best is None or m.start() < best[1].start()):
            best = (name, m)
    if best is None:
        return {"r": "other", "what": "ArgumentError: " + msg[:200]}
    name, m = best
    if name == "key":
        return {"r": "unknown", "fam": 0, "grp": [], "key": m.group(1).split(".")}
    if name == "group":
        return {"r": "unknown", "fam": 1, "grp": m.group(1).split("."), "key": m.group(1).split(".") + m.group(2).split(".")}
    if name == "sub":
        return {"r": "unknown", "fam": 2, "grp": [m.group(1)], "key": [m.group(1)] + m.group(2).split(".")}
    if name == "badspec":
        try:
            text = m.group(1).replace("OrderedDict(", "(")
            text = re.sub(r"defaultdict\((?:None|<class 'dict'>), ", "(", text)
            val = ast.literal_eval(text)
            extra = [k for k in val if k not in ("class_path", "init_args", "dict_kwargs")]
            return {"r": "badspec", "extra": extra}
        except Exception:
            return {"r": "other", "what": "badspec-unparsed: " + m.group(1)[:120]}
    if name == "missing":
        return {"r": "missing", "key": m.group(1).split(".")}
    return {"r": "nosub", "dest": m.group(1)}


@contextlib.contextmanager
def _environ(extra):
    import os

    saved = dict(os.environ)
    os.environ.update(extra)
    try:
        yield
    finally:
        os.environ.clear()
        os.environ.update(saved)


class _MyDict(dict):
    pass


def _containers(v, kind, top=False):
    """the same configuration object built from another mapping type: collections.OrderedDict or collections.defaultdict below the top level (the top-level object stays a plain dict)"""
    import collections

    if isinstance(v, dict):
        items = [(k, _containers(w, kind)) for k, w in v.items()]
        if top or kind == "dict":
            return dict(items)
        if kind == "odict":
            return collections.OrderedDict(items)
        if kind == "mydict":
            return _MyDict(items)            # a plain user-defined dict subclass (instances have their own empty __dict__)
        d = collections.defaultdict(dict)
        d.update(items)
        return d
    if isinstance(v, list):
        return [_containers(w, kind) for w in v]
    return v


def one(case):
    from jsonargparse import ArgumentError

    try:
        p = build(case["parser"], default_env=bool(case.get("env")))
    except Exception as e:  # the generated parser itself is not constructible: harness bug
        return {"r": "other", "what": "BUILD %s: %s" % (type(e).__name__, str(e)[:200])}
    cfg = case["cfg"]
    # declared List[...] keys given in the append spelling "<key>+" (same configuration otherwise)
    if case.get("append"):
        cfg = copy.deepcopy(cfg)
        for path in case["append"]:
            node = cfg
            for k in path[:-1]:
                node = node.get(k) if isinstance(node, dict) else None
            node = node if isinstance(node, dict) else {}
            if path[-1] in node:
                items = list(node.items())
                node.clear()
                node.update((k + "+" if k == path[-1] else k, v) for k, v in items)
    ch = case["channel"]
    # parse history: earlier parses on the same parser object (their outcome does not matter)
    for wc in case.get("warm") or []:
        try:
            with warnings.catch_warnings():
                warnings.simplefilter("ignore")
                p.parse_object(copy.deepcopy(wc))
        except BaseException:
            pass
    if case.get("label") == "valid":
        # "there is no lenient mode that accepts leftovers": parse_known_args refuses callers outside the package
        try:
            p.parse_known_args([])
            return {"r": "other", "what": "parse_known_args accepted an external caller"}
        except NotImplementedError:
            pass
        except BaseException as e:
            return {"r": "other", "what": "parse_known_args: %s: %s" % (type(e).__name__, str(e)[:120])}
        # leftover argv is refused ("Unrecognized arguments")
        try:
            p.parse_args(["--cfg=" + json.dumps(cfg), "--zz=7"])
            return {"r": "other", "what": "leftover argv --zz=7 accepted"}
        except ArgumentError as e:
            if "Unrecognized arguments: --zz=7" not in str(e):
                return {"r": "other", "what": "leftover argv: " + str(e)[:160]}
        except BaseException as e:
            return {"r": "other", "what": "leftover argv: %s: %s" % (type(e).__name__, str(e)[:120])}
        # ... also a leftover token that does not look like an option (parsers with subcommands would read it as the
        # subcommand name: not tried there)
        if not case["parser"].get("sub"):
            try:
                p.parse_args(["--cfg=" + json.dumps(cfg), "zz"])
                return {"r": "other", "what": "leftover argv zz accepted"}
            except ArgumentError as e:
                if "Unrecognized arguments: zz" not in str(e):
                    return {"r": "other", "what": "leftover argv: " + str(e)[:160]}
            except BaseException as e:
                return {"r": "other", "what": "leftover argv: %s: %s" % (type(e).__name__, str(e)[:120])}
    try:
        with warnings.catch_warnings(), contextlib.ExitStack() as stack:
            warnings.simplefilter("ignore")
            dflt = case.get("defaults", True)
            if case.get("env"):
                # the parser reads the process environment (default_env=True); the environment holds variables that are named
                # like NESTED fields (APP_<FIELD>), none of which is the variable of an argument of this parser
                stack.enter_context(_environ(case.get("decoys") or {}))
            if ch == "object":
                p.parse_object(_containers(copy.deepcopy(cfg), case.get("container", "dict"), True), defaults=dflt)
            elif ch == "string":
                p.parse_string(json.dumps(cfg), defaults=dflt)
            elif ch == "argvcfg":
                p.parse_args(["--cfg=" + json.dumps(cfg)])
            elif ch == "envcfg":
                p.parse_env({"APP_CFG": json.dumps(cfg)})
            else:
                raise ValueError(ch)
        return {"r": "accept"}
    except ArgumentError as e:
        return classify(str(e))
    except SystemExit as e:
        return {"r": "other", "what": "SystemExit %r" % (e.code,)}
    except BaseException as e:
        return {"r": "other", "what": "%s: %s" % (type(e).__name__, str(e)[:160])}


def one_with_links(case):
    """one() plus the observed outcome of every link_arguments attempt of the parser's construction history"""
    links = case["parser"].get("links") or []
    LAST_LINK_OUTCOMES[:] = []
    o = one(case)
    o["links"] = list(LAST_LINK_OUTCOMES) if len(LAST_LINK_OUTCOMES) == len(links) else [False] * len(links)
    return o


def main():
    payload = json.load(sys.stdin)
    out = [one_with_links(c) for c in payload["cases"]]
    print(json.dumps(out))


if __name__ == "__main__":
    main()

"""C03 impl runner: throws inputs at the five parse methods of the real jsonargparse and reports what comes out.

stdin : {"cases": [case, ...]}
        case = {"shape": str, "x": bool, "entry": "parse_args|parse_object|parse_string|parse_env|parse_path",
                "input": ..., "files": {relative name: text}, "dcf": text or null, "stdin": "none" or absent, "nested_x": "same|default|opposite" or absent, "cwd": "deleted" or absent,
                "history": [{"entry": ..., "input": ...}, ...] calls made before on the same parser object (outcomes swallowed)}
stdout: last line {"obs": [...]}; one observation per case:
        {"k": "ret"} | {"k": "exit", "code": c, "usage": bool, "frames": [...]} |
        {"k": "exc", "cls": "module.Qualname", "argerr": bool, "frames": [[module, qualname, lineno], ...] (jsonargparse
         functions on the traceback, distinct, outermost first), "msg": str} | {"k": "hung"}
Every case gets a fresh parser, runs with stdin closed (os.devnull), stdout/stderr captured, cwd = a scratch directory
holding the standard files good.yaml, bad.yaml, bin.yaml (not UTF-8), rec.yaml (self-referential alias), the directory d/,
and the case's own files; a SIGALRM limit per call turns non-termination into "hung".
"""
import argparse
import calendar
import datetime
import decimal
import pathlib
import re
import uuid
import contextlib
import dataclasses
import enum
import io
import json
import os
import shutil
import signal
import sys
import tempfile
from typing import Any, Callable, Dict, List, Optional, Type, Union

payload = json.load(sys.stdin)
sys.stdin = open(os.devnull)
# the answer goes out through a private duplicate of stdout: inputs such as {"ft": 1} make argparse.FileType open (and later
# close) file descriptor 1
ANSWER = os.fdopen(os.dup(1), "w")

import jsonargparse  # noqa: E402
from jsonargparse import ActionConfigFile, ActionParser, ArgumentParser, Namespace  # noqa: E402
from jsonargparse.typing import Path_fr, PositiveInt  # noqa: E402

PKG_DIR = os.path.dirname(os.path.abspath(jsonargparse.__file__))
LIMIT = int(os.environ.get("C03_CASE_LIMIT", "8"))


class Color(enum.Enum):
    red = 1
    green = 2


@dataclasses.dataclass
class DC:
    x: int = 1
    y: str = "s"


@dataclasses.dataclass
class Outer:
    inner: DC = dataclasses.field(default_factory=DC)
    k: float = 0.5


def type_rejecting(v):
    """a plain argparse type= callable following the argparse protocol"""
    if v == "ok" or v == 7:
        return 7
    raise argparse.ArgumentTypeError("not acceptable: %r" % (v,))


def type_int_like(v):
    return int(v)


def build(shape, x, dcf_path, nested_x="same"):
    """nested_x: how parsers nested below the root (sub-command parsers, the ActionParser parser) are constructed —
    "same": with the root's exit_on_error, "default": without the keyword (what jsonargparse.CLI does), "opposite": with the other value"""
    nkw = {} if nested_x == "default" else {"exit_on_error": (not x) if nested_x == "opposite" else x}
    kw = dict(exit_on_error=x, env_prefix="APP", default_env=False)
    if dcf_path is not None:
        kw["default_config_files"] = [dcf_path]
    if shape == "json":
        kw["parser_mode"] = "json"
    p = ArgumentParser(**kw)
    p.add_argument("--cfg", action=ActionConfigFile)
    if shape in ("basic", "json"):
        p.add_argument("--a", type=int, default=1)
        p.add_argument("--s", type=str)
        p.add_argument("--f", type=float, default=0.5)
        p.add_argument("--b", type=bool, default=False)
        p.add_argument("--l", type=List[int])
        p.add_argument("--d", type=Dict[str, int])
        p.add_argument("--n.x", type=int)
        p.add_argument("--n.y.z", type=Optional[str])
        p.add_argument("--o", type=Optional[int])
        p.add_argument("--any", type=Any)
        p.add_argument("--u", type=Union[int, List[str]])
        p.add_argument("--e", type=Color)
        p.add_argument("--pos", type=PositiveInt)
    elif shape == "classes":
        p.add_argument("--cal", type=calendar.Calendar)
        p.add_argument("--ocal", type=Optional[calendar.Calendar])
        p.add_argument("--t", type=Type[calendar.Calendar])
        p.add_argument("--c", type=Callable[[int], int])
        p.add_argument("--lcal", type=List[calendar.Calendar])
        p.add_argument("--dcal", type=Dict[str, calendar.Calendar])
        p.add_argument("--a", type=int, default=1)
    elif shape == "dataclass":
        p.add_argument("--dc", type=DC)
        p.add_argument("--odc", type=Optional[DC])
        p.add_argument("--ldc", type=List[DC])
        p.add_argument("--ddc", type=Dict[str, DC])
        p.add_argument("--out", type=Outer)
        p.add_argument("--a", type=int, default=1)
    elif shape == "subcommands":
        p.add_argument("--a", type=int, default=1)
        sc = p.add_subcommands(required=True)
        fit = ArgumentParser(**nkw)
        fit.add_argument("--cfg", action=ActionConfigFile)
        fit.add_argument("--p", type=int, default=0)
        fit.add_argument("--cal", type=calendar.Calendar)
        test = ArgumentParser(**nkw)
        test.add_argument("--q", type=List[str])
        test.add_argument("name", type=str, nargs="?")
        sc.add_subcommand("fit", fit)
        sc.add_subcommand("test", test)
    elif shape == "plain":
        p.add_argument("--pt", type=type_rejecting)
        p.add_argument("--it", type=type_int_like)
        p.add_argument("--ch", choices=["x", "y"])
        p.add_argument("--m", type=int, nargs="+")
        p.add_argument("--mc", nargs="+", choices=["x", "y"])
        p.add_argument("--mq", type=int, nargs="?", const=3)
        p.add_argument("--ms", nargs="*")
        p.add_argument("--flag", action="store_true")
        p.add_argument("--cnt", action="count")
        p.add_argument("--a", type=int, default=1)
    elif shape == "registered":
        p.add_argument("--dec", type=decimal.Decimal)
        p.add_argument("--td", type=datetime.timedelta)
        p.add_argument("--dt", type=datetime.datetime)
        p.add_argument("--cx", type=complex)
        p.add_argument("--uu", type=uuid.UUID)
        p.add_argument("--pp", type=pathlib.Path)
        p.add_argument("--rx", type=re.Pattern)
        p.add_argument("--by", type=bytes)
        p.add_argument("--rg", type=range)
        p.add_argument("--od", type=Optional[decimal.Decimal])
        p.add_argument("--ltd", type=List[datetime.timedelta])
        p.add_argument("--ddec", type=Dict[str, decimal.Decimal])
        p.add_argument("--a", type=int, default=1)
    elif shape == "paths":
        p.add_argument("--p", type=Path_fr)
        p.add_argument("--lp", type=List[Path_fr])
        p.add_argument("--op", type=Optional[Path_fr])
        inner = ArgumentParser(**nkw)
        inner.add_argument("--v", type=int, default=0)
        inner.add_argument("--w.k", type=List[int])
        p.add_argument("--inner", action=ActionParser(parser=inner))
        p.add_argument("--a", type=int, default=1)
    elif shape == "subpaths":
        p.add_argument("--el", type=List[int], enable_path=True)
        p.add_argument("--ed", type=Dict[str, int], enable_path=True)
        p.add_argument("--ecal", type=calendar.Calendar, enable_path=True)
        p.add_argument("--edc", type=DC, enable_path=True)
        p.add_argument("--eos", type=Optional[str], enable_path=True)
        p.add_argument("--eus", type=Union[int, str], enable_path=True)
        p.add_argument("--wcal", type=calendar.Calendar,
                       default={"class_path": "calendar.TextCalendar", "init_args": {"firstweekday": 2}})
        p.add_argument("--us", type=Union[int, str])
        p.add_argument("--a", type=int, default=1)
    else:
        raise ValueError("unknown shape %r" % shape)
    return p


def decode(v):
    if isinstance(v, list):
        return [decode(i) for i in v]
    if isinstance(v, dict):
        tag = v.get("$")
        if tag is None:
            return {k: decode(i) for k, i in v.items()}
        if tag == "object":
            return object()
        if tag == "nan":
            return float("nan")
        if tag == "inf":
            return float("inf")
        if tag == "ns":
            ns = Namespace()
            for k, i in v["v"].items():
                val = decode(i)
                try:
                    ns[k] = val
                except Exception:  # noqa: a key a Namespace cannot hold: leave it out (the harness builds the input, not the parser)
                    pass
            return ns
        if tag == "tuple":
            return tuple(decode(i) for i in v["v"])
        if tag == "set":
            return set(decode(i) for i in v["v"])
        if tag == "bytes":
            return v["v"].encode("latin-1")
        if tag == "items":  # dict with arbitrary keys
            return {decode(k): decode(i) for k, i in v["v"]}
        if tag == "class":
            return calendar.TextCalendar
        if tag == "instance":
            return calendar.TextCalendar()
        if tag == "dc":
            return DC()
        if tag == "big":
            return 10 ** 400
        if tag == "deep":
            val = []
            for _ in range(int(v["n"])):
                val = [val]
            return val
        raise ValueError("unknown tag %r" % tag)
    return v


class Hung(BaseException):
    pass


def on_alarm(signum, frame):
    raise Hung()


signal.signal(signal.SIGALRM, on_alarm)


def frames_of(exc):
    """distinct jsonargparse functions on the traceback, OUTERMOST first (first occurrence; line of that occurrence)"""
    out, seen = [], set()
    tb = exc.__traceback__
    while tb is not None:
        code = tb.tb_frame.f_code
        fn = os.path.abspath(code.co_filename)
        if fn.startswith(PKG_DIR + os.sep):
            key = (os.path.basename(fn)[:-3], getattr(code, "co_qualname", code.co_name))
            if key not in seen:
                seen.add(key)
                out.append([key[0], key[1], tb.tb_lineno])
        tb = tb.tb_next
    return out[:80]


def to_bytes(text):
    """U+DC80..U+DCFF stand for raw bytes (undecodable files); other lone surrogates are written as they are"""
    try:
        return text.encode("utf-8", errors="surrogateescape")
    except UnicodeEncodeError:
        return text.encode("utf-8", errors="surrogatepass")


def call(parser, entry, inp, case=None):
    if entry == "parse_args":
        kw = {}
        if case is not None and case.get("namespace") is not None:
            ns = Namespace()
            for k, i in case["namespace"].items():
                try:
                    ns[k] = decode(i)
                except Exception:  # noqa: a key a Namespace cannot hold: leave it out (the harness builds the input, not the parser)
                    pass
            kw["namespace"] = ns
        if case is not None and case.get("argv_via") == "sys" and all(isinstance(a, str) for a in inp):
            saved = sys.argv
            sys.argv = ["prog"] + list(inp)
            try:
                return parser.parse_args(**kw)
            finally:
                sys.argv = saved
        return parser.parse_args(list(inp), **kw)
    if entry == "parse_string":
        return parser.parse_string(inp)
    if entry == "parse_object":
        return parser.parse_object(inp)
    if entry == "parse_env":
        return parser.parse_env(dict(inp))
    if entry == "parse_path":
        return parser.parse_path(inp)
    raise ValueError("unknown entry %r" % entry)


def heap_of(value):
    """the loaded value as a heap: node id = order of first visit (object identity for containers, one node per scalar
    occurrence), kind 0 dict / 1 list / 2 tuple / 3 anything else, items = ids of the values of a dict / the items of a list or tuple"""
    ids, nodes, todo = {}, [], []

    def nid(v):
        if isinstance(v, (dict, list, tuple)):
            if id(v) not in ids:
                ids[id(v)] = len(nodes)
                nodes.append([0 if isinstance(v, dict) else 1 if isinstance(v, list) else 2, None])
                todo.append(v)
            return ids[id(v)]
        nodes.append([3, []])
        return len(nodes) - 1

    root = nid(value)
    while todo:
        v = todo.pop()
        me = ids[id(v)]
        nodes[me][1] = [nid(i) for i in (v.values() if isinstance(v, dict) else v)]
        if len(nodes) > 400:
            return None, None
    return nodes, root


def run_cycle_check(case):
    """one call of the real yaml_load on a text PyYAML itself can load: is the value refused (YAMLError) or handed on?"""
    import yaml
    from jsonargparse import _loaders_dumpers as LD

    text = case["input"]
    signal.alarm(LIMIT)
    try:
        try:
            value = yaml.load(text, Loader=LD.get_yaml_default_loader())
        except Exception:  # noqa: not loadable at all: nothing to ask the cycle check
            return {"k": "ret"}
        heap, root = heap_of(value)
        if heap is None:
            return {"k": "ret"}
        try:
            LD.yaml_load(text)
            rejected = False
        except yaml.YAMLError:
            rejected = True
        return {"k": "cyc", "heap": heap, "root": root, "rejected": rejected}
    except Hung:
        return {"k": "hung"}
    except BaseException as e:  # noqa: B036
        t = type(e)
        return {"k": "exc", "cls": "%s.%s" % (t.__module__, t.__qualname__), "argerr": False, "frames": frames_of(e), "msg": str(e)[:160]}
    finally:
        signal.alarm(0)


def run_case(case, base):
    if case["entry"] == "cycle_check":
        return run_cycle_check(case)
    work = tempfile.mkdtemp(prefix="c", dir=base)
    os.chdir(work)
    with open("good.yaml", "w") as f:
        f.write("a: 2\n")
    with open("bad.yaml", "w") as f:
        f.write("a: [1,\n")
    with open("rec.yaml", "w") as f:
        f.write("any: &x [*x]\n")
    with open("bin.yaml", "wb") as f:
        f.write(b"\xff\xfe\x00a: 1\n")
    with open("empty.yaml", "w") as f:
        f.write("")
    with open("list.yaml", "w") as f:
        f.write("- 1\n- 2\n")
    with open("dict.yaml", "w") as f:
        f.write("k: 1\n")
    with open("cal.yaml", "w") as f:
        f.write("class_path: calendar.TextCalendar\ninit_args:\n  firstweekday: 2\n")
    with open("dc.yaml", "w") as f:
        f.write("x: 3\n")
    with open("pairs.yaml", "w") as f:
        f.write("k: &x !!pairs [k: *x]\n")
    os.mkdir("d")
    for name, text in (case.get("files") or {}).items():
        with open(name, "wb") as f:
            f.write(to_bytes(text))
    dcf_path = None
    if case.get("dcf") is not None:
        dcf_path = os.path.join(work, "defaults.yaml")
        with open(dcf_path, "wb") as f:
            f.write(to_bytes(case["dcf"]))
    out, err = io.StringIO(), io.StringIO()
    obs = None
    inp = case["input"]
    if case["entry"] == "parse_object":
        inp = decode(inp)
    saved_stdin = sys.stdin
    if case.get("stdin") == "none":
        sys.stdin = None   # what CPython does when file descriptor 0 is closed at start-up
    signal.alarm(LIMIT)
    try:
        try:
            with contextlib.redirect_stdout(out), contextlib.redirect_stderr(err):
                parser = build(case["shape"], case["x"], dcf_path, case.get("nested_x", "same"))
                # calls made earlier on the SAME parser object: whatever they do is swallowed, only the last call is observed
                for h in case.get("history") or []:
                    signal.alarm(LIMIT)  # every call has its own time budget; an earlier call that exceeds it is abandoned
                    try:
                        call(parser, h["entry"], decode(h["input"]) if h["entry"] == "parse_object" else h["input"])
                    except BaseException:  # noqa: B036
                        pass
                if case.get("cwd") == "deleted":
                    shutil.rmtree(work, ignore_errors=True)   # the process keeps running in a directory that no longer exists
                signal.alarm(LIMIT)
                out.seek(0), out.truncate(), err.seek(0), err.truncate()
                call(parser, case["entry"], inp, case)
            obs = {"k": "ret"}
        finally:
            signal.alarm(0)
    except Hung:
        obs = {"k": "hung"}
    except SystemExit as e:
        text = err.getvalue()
        lines = [l for l in text.splitlines() if l.strip()]
        # a usage message and an "error: ..." line (the message itself may span several lines)
        usage = any(l.startswith("usage:") for l in lines) and any(l.startswith("error: ") or ": error: " in l for l in lines)
        code = e.code if isinstance(e.code, int) else (0 if e.code is None else 1)
        obs = {"k": "exit", "code": code, "usage": usage, "frames": frames_of(e)}
    except BaseException as e:  # noqa: B036 - that is the point
        t = type(e)
        obs = {"k": "exc", "cls": "%s.%s" % (t.__module__, t.__qualname__), "argerr": isinstance(e, jsonargparse.ArgumentError),
               "frames": frames_of(e), "msg": str(e)[:160]}
    finally:
        signal.alarm(0)
        sys.stdin = saved_stdin if saved_stdin is not None and not getattr(saved_stdin, "closed", False) else open(os.devnull)
        os.chdir(base)
        shutil.rmtree(work, ignore_errors=True)
    return obs


def main():
    base = tempfile.mkdtemp(prefix="jv_c03_")
    # an importable module whose import fails the way an optional-dependency guard does
    with open(os.path.join(base, "c03_needs_extra.py"), "w") as f:
        f.write("raise ImportError('c03_needs_extra requires the optional package `extra`')\n")
    sys.path.insert(0, base)
    res = []
    try:
        for case in payload["cases"]:
            res.append(run_case(case, base))
    finally:
        os.chdir(tempfile.gettempdir())
        shutil.rmtree(base, ignore_errors=True)
    ANSWER.write("\n" + json.dumps({"obs": res}) + "\n")
    ANSWER.flush()


main()

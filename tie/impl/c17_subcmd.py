"""C17 runner: builds real jsonargparse parsers from generated subcommand trees and parses one
structured input per case.  stdin: {"cases": [case, ...]}; stdout (last line): [obs, ...].

case  = {"parser": P, "env": null | OBJ, "envmode": MODE (optional, default "ctor"),
         "entry": {"kind": "args", "argv": A} | {"kind": "object"|"string", "cfg": OBJ} | {"kind": "env", "map": OBJ}}
        kind "env": parser.parse_env(<variables rendered from "map">) — an EXPLICIT mapping; os.environ holds only the
        variables of "env" ([] = none): they are decoys this parse must not see
MODE  = how environment parsing is switched on/off while the variables of "env" are in os.environ:
        "ctor"       root built with default_env=True
        "setter"     tree built with default_env=False, THEN root.default_env = True (the setter must reach every level)
        "arg"        default_env=False, parse_*(..., env=True)
        "off_setter" tree built with default_env=True, THEN root.default_env = False  (environment must NOT be read)
        "off"        default_env=False                                               (environment must NOT be read)
P     = {"cfg": bool, "opts": [[name, default], ...], "has": bool, "req": bool, "dest": str, "choices": [[name, P], ...]}
A     = {"items": [["opt", k, v] | ["cfg", OBJ], ...], "sub": null | [name, A]}
OBJ   = [[key, int | str | OBJ], ...]      (ordered JSON object)
obs   = {"ok": nested dict without "cfg" keys} | {"fail": kind}
"""
import json
import os
import sys
import warnings

warnings.simplefilter("ignore")

from jsonargparse import ArgumentParser  # noqa: E402


def build_tree(P, default_env):
    """add_subcommand refuses a parser that already has subcommands ("level order"), so build
    top-down: create the parser, add its subcommand parsers bare, then recurse into them."""
    def bare(P, top):
        kw = dict(exit_on_error=False)
        if top:
            kw.update(prog="app", default_env=default_env)
        p = ArgumentParser(**kw)
        if P["cfg"]:
            p.add_argument("--cfg", action="config")
        for k, d in P["opts"]:
            p.add_argument("--" + k, type=int, default=d)
        return p

    def grow(p, P):
        if P["has"]:
            sc = p.add_subcommands(required=P["req"], dest=P["dest"])
            kids = []
            for n, Q in P["choices"]:
                q = bare(Q, False)
                sc.add_subcommand(n, q)
                kids.append((q, Q))
            for q, Q in kids:
                grow(q, Q)

    top = bare(P, True)
    grow(top, P)
    return top


def obj(o):
    return {k: (obj(v) if isinstance(v, list) else v) for k, v in o}


def render_argv(A):
    out = []
    for it in A["items"]:
        if it[0] == "opt":
            out.append("--%s=%d" % (it[1], it[2]))
        else:
            out.append("--cfg=" + json.dumps(obj(it[1])))
    if A["sub"] is not None:
        out.append(A["sub"][0])
        out += render_argv(A["sub"][1])
    return out


def render_env(o, prefix="APP_"):
    env = {}
    for k, v in o:
        if isinstance(v, list):
            env.update(render_env(v, prefix + k.upper() + "__"))
        else:
            env[prefix + k.upper()] = str(v)
    return env


def canon(v):
    if isinstance(v, dict):
        return {k: canon(x) for k, x in v.items() if k != "cfg"}
    if v is None or isinstance(v, str) or (isinstance(v, int) and not isinstance(v, bool)):
        return v
    return {"?weird": repr(type(v).__name__)}


def run(case):
    for k in [k for k in os.environ if k.startswith("APP_")]:
        del os.environ[k]
    os.environ.pop("JSONARGPARSE_DEFAULT_ENV", None)
    mode = case.get("envmode", "ctor") if case["env"] is not None else "none"
    if case["env"] is not None:
        os.environ.update(render_env(case["env"]))
    kw = {"env": True} if mode == "arg" else {}
    try:
        parser = build_tree(case["parser"], mode in ("ctor", "off_setter"))
        if mode == "setter":
            parser.default_env = True
        elif mode == "off_setter":
            parser.default_env = False
    except BaseException as e:  # noqa
        return {"fail": "build:" + type(e).__name__ + ":" + str(e)[:80]}
    e = case["entry"]
    try:
        if e["kind"] == "args":
            cfg = parser.parse_args(render_argv(e["argv"]), **kw)
        elif e["kind"] == "env":
            cfg = parser.parse_env(render_env(e["map"]))
        elif e["kind"] == "object":
            cfg = parser.parse_object(obj(e["cfg"]), **kw)
        else:
            cfg = parser.parse_string(json.dumps(obj(e["cfg"])), **kw)
        return {"ok": canon(cfg.as_dict())}
    except BaseException as ex:  # noqa
        msg = str(ex)
        name = type(ex).__name__
        if name == "ArgumentError":
            kind = "nosub" if "to be one of" in msg and "was not provided" in msg else "argerror"
        else:
            kind = "exc:" + name
        return {"fail": kind}


if __name__ == "__main__":
    cases = json.load(sys.stdin)["cases"]
    print(json.dumps([run(c) for c in cases]))

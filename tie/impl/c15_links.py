"""C15 runner: builds real jsonargparse parsers with link_arguments calls and observes them.

stdin : {"cases": [case...], "classes": {...}}   (see tie/props/c15.py for the case format)
stdout: last line = JSON list of observations.

The only patching is in THIS process: ActionLink.apply_parsing_links is wrapped to record the configuration
it receives for the top-level parser (the "pre-link" configuration); /repo is not touched.
"""
import json
import os
import shutil
import sys
import tempfile
from typing import Any, Dict, List

MODULE = "c15mod"

FUNCTIONS_SRC = '''
def _d(x):
    return x.as_dict() if hasattr(x, "as_dict") else x

def _ints(xs):
    for x in xs:
        if type(x) is not int:
            raise TypeError("int expected, got %r" % (x,))

def add(*a):
    _ints(a)
    return sum(a)

def cat(*a):
    r = []
    for x in a:
        if type(x) is not list:
            raise TypeError("list expected")
        r = r + x
    return r

def tup(*a):
    return [_d(x) for x in a]

def first(*a):
    return a[0]

def word(*a):
    return "zz"

def boom(*a):
    raise RuntimeError("boom")

def gsum(g):
    d = _d(g)
    if not isinstance(d, dict):
        raise TypeError("group expected")
    vs = list(d.values())
    _ints(vs)
    return sum(vs)

def inc(a):
    _ints([a])
    return a + 1

def pair(a):
    _ints([a])
    return [a, a]

def kind(*a):
    return "-".join(type(x).__name__ for x in a)

def dsum(d: dict):
    # the annotation makes apply_parsing_links hand a group / class Namespace over as a dict (as_dict());
    # anything else is answered with -1, so that a missing conversion shows in the TARGET and not as a rejected parse
    if type(d) is not dict:
        return -1
    vs = list(d.values())
    _ints(vs)
    return sum(vs)

FUNCTIONS = [add, cat, tup, first, word, boom, gsum, inc, pair, kind, dsum]
'''

TYPES_SRC = {"int": "int", "str": "str", "list": "List[int]", "any": "Any", "dict": "Dict[str, int]"}


def write_module(d, classes):
    lines = ["from typing import Any, Dict, List, Optional", ""]
    for name, params in classes.items():
        base = "" if name == "Base" else "(Base)"
        sig = ["self"]
        for pname, pty, pdef in params:
            if pdef == "__required__":
                sig.append("%s: %s" % (pname, TYPES_SRC[pty]))
            else:
                sig.append("%s: %s = %r" % (pname, TYPES_SRC[pty], pdef))
        # required parameters first
        req = [s for s in sig[1:] if "=" not in s]
        opt = [s for s in sig[1:] if "=" in s]
        lines += ["class %s%s:" % (name, base), "    def __init__(%s):" % ", ".join(["self"] + req + opt), "        pass", ""]
    with open(os.path.join(d, MODULE + ".py"), "w") as f:
        f.write("\n".join(lines) + FUNCTIONS_SRC)


def canon(v):
    if v is None or type(v) in (int, str):
        return v
    if type(v) is bool:
        return {"__bool__": v}
    if hasattr(v, "as_dict"):
        v = v.as_dict()
    if isinstance(v, dict):
        # __path__ / __orig__ ... : metadata of values loaded from their own file (strip_meta drops them in dumps)
        return {"__map__": [[str(k), canon(x)] for k, x in v.items() if not (str(k).startswith("__") and str(k).endswith("__"))]}
    if isinstance(v, (list, tuple)):
        return [canon(x) for x in v]
    return {"__other__": type(v).__name__}


def canon_cfg(ns, subs=()):
    d = ns.clone().as_dict() if hasattr(ns, "clone") else dict(ns)
    d.pop("cfg", None)
    d.pop("__path__", None)
    if subs:           # the subcommands dest ("subcommand": name) is bookkeeping that dump() drops; not a link matter
        d.pop("subcommand", None)
    for name in subs:  # the subcommands' own --cfg actions
        if isinstance(d.get(name), dict):
            d[name].pop("cfg", None)
            d[name].pop("__path__", None)
    return canon(d)


def render(v):
    if isinstance(v, str):
        return v
    return json.dumps(v)


def main():
    payload = json.load(sys.stdin)
    scratch = tempfile.mkdtemp(prefix="jv_c15_")
    try:
        write_module(scratch, payload["classes"])
        indir, outdir = os.path.join(scratch, "in"), os.path.join(scratch, "out")
        os.mkdir(indir)
        os.mkdir(outdir)
        sys.path.insert(0, scratch)
        import c15mod  # noqa
        import jsonargparse._link_arguments as la
        from jsonargparse import ArgumentError, ArgumentParser

        state = {}
        orig = la.ActionLink.apply_parsing_links

        def hooked(parser, cfg):
            # calls made while a config file is being loaded (ActionConfigFile.apply_config: skip_apply_links) return
            # at once and see only that file's content: they are not the pre-link configuration
            if parser is state.get("top") and state.get("armed") and not la.apply_config_skip.get():
                try:
                    state["pre"] = canon_cfg(cfg, state.get("subs", ()))
                except Exception as ex:  # pragma: no cover
                    state["pre"] = {"__other__": "pre:" + type(ex).__name__}
            return orig(parser, cfg)

        la.ActionLink.apply_parsing_links = staticmethod(hooked)
        tys = {"int": int, "str": str, "list": List[int], "any": Any, "dict": Dict[str, int]}

        def populate(p, decls, links, build):
            p.add_argument("--cfg", action="config")
            for d in decls:
                kw = {}
                if d["kind"] == "class":
                    kw["type"] = c15mod.Base
                elif d["kind"] == "classlist":
                    kw["type"] = List[c15mod.Base]
                else:
                    kw["type"] = tys[d["kind"]]
                if d["required"]:
                    kw["required"] = True
                else:
                    kw["default"] = d["default"]
                if d["kind"] == "class":
                    kw["enable_path"] = True     # --c=<file holding the class spec>; the parse keeps its __path__
                p.add_argument(*option_strings(d), **kw)
            crash = None
            for l in links:
                src = l["src"][0] if len(l["src"]) == 1 and l.get("src_str", True) else tuple(l["src"])
                fn = None if l["fn"] is None else c15mod.FUNCTIONS[l["fn"]]
                try:
                    p.link_arguments(src, l["tgt"], fn)
                    build.append(0)
                except ValueError:
                    build.append(1)
                except Exception as ex:
                    build.append(3)
                    crash = type(ex).__name__ + ": " + str(ex)[:200]
            return crash

        def option_strings(d):
            """first spelling --<key>; a declaration with an alias gets a second long (--<key>_alt) or short (-K) one"""
            if d.get("alias") == "long":
                return ["--" + d["key"], "--" + d["key"] + "_alt"]
            if d.get("alias") == "short":
                return ["--" + d["key"], "-" + d["key"].upper()]
            return ["--" + d["key"]]

        def render_items(items, decls, indir):
            """["opt", key, value] first spelling; ["opt", key, value, "alt"] the second spelling of the declaration;
            ["opt", key, value, "file"] the value is written to its own config file and the option gets the path"""
            spell = {d["key"]: option_strings(d) for d in decls}
            out = []
            for n, it in enumerate(items):
                if it[0] != "opt":
                    out.append("--cfg=" + json.dumps(it[1]))
                    continue
                how = it[3] if len(it) > 3 else None
                if how == "file":
                    path = os.path.join(indir, "%s_%d.json" % (it[1].replace(".", "_"), n))
                    with open(path, "w") as f:
                        json.dump(it[2], f)
                    out.append("--%s=%s" % (it[1], path))
                elif how == "alt" and len(spell.get(it[1], [])) > 1:
                    alt = spell[it[1]][1]
                    out += [alt + "=" + render(it[2])] if alt.startswith("--") else [alt, render(it[2])]
                else:
                    out.append("--%s=%s" % (it[1], render(it[2])))
            return out

        def edit_lists(cfg, key):
            try:
                v = cfg.get(key)
            except Exception:
                return
            if isinstance(v, list):
                v.append(99)
            dest = key.split(".init_args.")[0]
            items = cfg.get(dest) if dest != key else None
            if isinstance(items, list):
                child = key[len(dest) + 1:]
                for it in items:
                    if hasattr(it, "get") and isinstance(it.get(child), list):
                        it[child].append(99)

        def observe_save(p, cfg, outdir, obs):
            """save() in its default multifile mode; every file it wrote is read back and put in place of the
            reference the main file holds, so the result is comparable with dump() and no written file is left out"""
            try:
                main = os.path.join(outdir, "main.json")
                p.save(cfg, main, format="json", skip_none=False, overwrite=True)
                files = {}
                for name in sorted(os.listdir(outdir)):
                    with open(os.path.join(outdir, name)) as f:
                        files[name] = json.load(f)
                top = files.pop("main.json")
                used = set()

                def put_back(v):
                    if isinstance(v, dict):
                        return {k: put_back(x) for k, x in v.items()}
                    if isinstance(v, str) and v in files:
                        used.add(v)
                        return files[v]
                    return v

                top = put_back(top)
                if used != set(files):
                    obs["save_error"] = "files written but not referenced: %s" % sorted(set(files) - used)
                    return
                obs["save"] = canon(top)
                obs["save_files"] = 1 + len(files)
            except Exception as ex:
                obs["save_error"] = type(ex).__name__ + ": " + str(ex)[:300]
            finally:
                for name in os.listdir(outdir):
                    os.remove(os.path.join(outdir, name))

        def one_tree(case):
            """top-level parser + two subcommands built from one specification; everything observed through the TOP parser"""
            sub = case["sub"]
            subs = ["fit", "test"]
            obs = {"build": [], "required": [], "pre": None, "parse": None, "dump": None, "reparse": None, "save": None,
                   "sub_build": [], "sub_required": []}
            p = ArgumentParser(exit_on_error=False, default_env=True, env_prefix="APP")
            crash = populate(p, case["decls"], case["links"], obs["build"])
            if crash:
                obs["build_crash"] = crash
            sc = p.add_subcommands()
            for name in subs:
                q = ArgumentParser(exit_on_error=False)
                b = []
                crash = populate(q, sub["decls"], sub["links"], b)
                sc.add_subcommand(name, q)
                if name == sub["name"]:
                    obs["sub_build"] = b
                    obs["sub_required"] = sorted(q.required_args)
                    if crash:
                        obs["build_crash"] = crash
            # the subcommands dest itself is required; it is not a link matter
            obs["required"] = sorted(k for k in p.required_args if k != "subcommand")
            env_keys = []
            for k, v in case["env"]:
                name = "APP_" + k.replace(".", "__").upper()
                os.environ[name] = render(v)
                env_keys.append(name)
            state["top"] = p
            state["pre"] = None
            state["subs"] = subs
            try:
                state["armed"] = True
                if case["mode"] == "object":
                    r = attempt(lambda: p.parse_object(case["obj"]))
                else:
                    argv = render_items(case["argv"], case["decls"], indir) + [sub["name"]] + render_items(sub["argv"], sub["decls"], indir)
                    r = attempt(lambda: p.parse_args(argv))
                state["armed"] = False
                obs["pre"] = state["pre"]
                if r[0] == "ok":
                    cfg = r[1]
                    obs["parse"] = ["ok", canon_cfg(cfg, subs)]
                    try:
                        text = p.dump(cfg, format="json", skip_none=False)
                        obs["dump"] = canon(json.loads(text))
                    except Exception as ex:
                        text = None
                        obs["dump_error"] = type(ex).__name__ + ": " + str(ex)[:300]
                    if text is not None:
                        r2 = attempt(lambda: p.parse_args(["--cfg", text], with_meta=False))
                        obs["reparse"] = ["ok", canon_cfg(r2[1], subs)] if r2[0] == "ok" else r2
                    observe_save(p, cfg, outdir, obs)
                else:
                    obs["parse"] = r
            finally:
                state["armed"] = False
                state["subs"] = ()
                for name in env_keys:
                    os.environ.pop(name, None)
            return obs

        def attempt(f):
            try:
                return ["ok", f()]
            except ArgumentError as ex:
                msg = str(ex)
                linked = "must be given via" in msg or (msg.startswith("argument ") and " --> " in msg.split(": invalid ")[0] and ": invalid " in msg)
                return ["linked" if linked else "rejected", msg[:300]]
            except Exception as ex:
                return ["crash", type(ex).__name__ + ": " + str(ex)[:300]]

        def give_targets(case, build):
            """the same input with a value GIVEN for every init_arg that is the target of an ACCEPTED link, in every class
            spec whose class takes it;
            None if that changes nothing. (The target is not required from the user: an input rejected without the
            values must not be accepted with them when every link is applied and overwrites them anyway.)"""
            import copy as _copy
            classes = payload["classes"]
            want = {}
            for l, verdict in zip(case["links"], build):
                if verdict == 0 and ".init_args." in l["tgt"]:
                    dest, par = l["tgt"].split(".init_args.", 1)
                    want.setdefault(dest, []).append(par)
            if not want:
                return None
            changed = [False]

            def fill(v, pars):
                if isinstance(v, str) and v.startswith(MODULE + "."):
                    v = {"class_path": v, "init_args": {}}
                if isinstance(v, list):
                    return [fill(x, pars) for x in v]
                if isinstance(v, dict) and "class_path" in v:
                    v = _copy.deepcopy(v)
                    params = {pn: pt for pn, pt, _ in classes.get(v["class_path"].split(".")[-1], [])}
                    ia = v.setdefault("init_args", {})
                    for par in pars:
                        if par in params and par not in ia:
                            ia[par] = [] if params[par] == "list" else 1
                            changed[0] = True
                return v

            def fill_map(m):
                return {k: (fill(v, want[k]) if k in want else v) for k, v in m.items()}

            x = _copy.deepcopy({k: case[k] for k in ("mode", "env", "argv", "obj")})
            x["obj"] = fill_map(x["obj"])
            x["argv"] = [([it[0], it[1], fill(it[2], want[it[1]])] + it[3:] if it[0] == "opt" and it[1] in want
                          else ["cfg", fill_map(it[1])] if it[0] == "cfg" else it) for it in x["argv"]]
            return x if changed[0] else None

        def one(case):
            if case.get("sub"):
                return one_tree(case)
            obs = {"build": [], "required": [], "pre": None, "parse": None, "dump": None, "reparse": None, "save": None}
            p = ArgumentParser(exit_on_error=False, default_env=True, env_prefix="APP")
            crash = populate(p, case["decls"], case["links"], obs["build"])
            if crash:
                obs["build_crash"] = crash
            obs["required"] = sorted(p.required_args)

            env_keys = []
            for k, v in case["env"]:
                name = "APP_" + k.replace(".", "__").upper()
                os.environ[name] = render(v)
                env_keys.append(name)
            state["top"] = p
            state["pre"] = None

            def attempt(f):
                try:
                    return ["ok", f()]
                except ArgumentError as ex:
                    msg = str(ex)
                    # ActionLink.__call__ ("must be given via"), or argparse failing to call the type hint the link
                    # action carries for a List/Any target ("argument <link>: invalid ... value") before it gets there
                    linked = "must be given via" in msg or (msg.startswith("argument ") and " --> " in msg.split(": invalid ")[0] and ": invalid " in msg)
                    return ["linked" if linked else "rejected", msg[:300]]
                except Exception as ex:
                    return ["crash", type(ex).__name__ + ": " + str(ex)[:300]]

            try:
                state["armed"] = True
                if case["mode"] == "object":
                    r = attempt(lambda: p.parse_object(case["obj"]))
                else:
                    argv = render_items(case["argv"], case["decls"], indir)
                    r = attempt(lambda: p.parse_args(argv))
                state["armed"] = False
                obs["pre"] = state["pre"]
                if r[0] == "ok":
                    cfg = r[1]
                    obs["parse"] = ["ok", canon_cfg(cfg)]
                    try:
                        text = p.dump(cfg, format="json", skip_none=False)
                        obs["dump"] = canon(json.loads(text))
                    except Exception as ex:
                        text = None
                        obs["dump_error"] = type(ex).__name__ + ": " + str(ex)[:300]
                    if text is not None:
                        r2 = attempt(lambda: p.parse_args(["--cfg", text], with_meta=False))
                        obs["reparse"] = ["ok", canon_cfg(r2[1])] if r2[0] == "ok" else r2
                    observe_save(p, cfg, outdir, obs)
                    # the caller goes on working with the configuration it got: lists found at link targets are edited
                    # in place (whatever else holds the same object sees the edit)
                    for l in case["links"]:
                        edit_lists(cfg, l["tgt"])
                else:
                    obs["parse"] = r
                    xg = give_targets(case, obs["build"]) if r[0] == "rejected" and not case["full"] else None
                    if xg is not None:
                        if xg["mode"] == "object":
                            rg = attempt(lambda: p.parse_object(xg["obj"]))
                        else:
                            argvg = render_items(xg["argv"], case["decls"], indir)
                            rg = attempt(lambda: p.parse_args(argvg))
                        obs["given"] = ["ok", canon_cfg(rg[1])] if rg[0] == "ok" else rg
                if case.get("second") is not None:
                    x2 = case["second"]
                    for name in env_keys:
                        os.environ.pop(name, None)
                    env_keys = []
                    for k, v in x2["env"]:
                        name = "APP_" + k.replace(".", "__").upper()
                        os.environ[name] = render(v)
                        env_keys.append(name)
                    state["pre"] = None
                    state["armed"] = True
                    if x2["mode"] == "object":
                        r3 = attempt(lambda: p.parse_object(x2["obj"]))
                    else:
                        argv2 = render_items(x2["argv"], case["decls"], indir)
                        r3 = attempt(lambda: p.parse_args(argv2))
                    state["armed"] = False
                    obs["pre2"] = state["pre"]
                    obs["parse2"] = ["ok", canon_cfg(r3[1])] if r3[0] == "ok" else r3
            finally:
                state["armed"] = False
                for name in env_keys:
                    os.environ.pop(name, None)
            return obs

        out = [one(c) for c in payload["cases"]]
    finally:
        shutil.rmtree(scratch, ignore_errors=True)
    print(json.dumps(out))


if __name__ == "__main__":
    main()

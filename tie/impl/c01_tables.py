"""Prints the implicit-resolver tables of the loader jsonargparse uses and of the dumper that its
yaml_dump really hands to PyYAML (captured by intercepting yaml.dump_all), as JSON."""
import json
import sys

import yaml

from jsonargparse import _loaders_dumpers as ld

captured = {}
orig = yaml.dump_all


def spy(documents, stream=None, Dumper=yaml.Dumper, **kw):
    captured["Dumper"] = Dumper
    captured["kw"] = {k: v for k, v in kw.items() if isinstance(v, (bool, int, str, type(None)))}
    return orig(documents, stream, Dumper=Dumper, **kw)


yaml.dump_all = spy
ld.yaml_dump({"a": "x"})
yaml.dump_all = orig
if "Dumper" not in captured:
    print(json.dumps({"error": "yaml_dump did not reach yaml.dump_all"}))
    sys.exit(0)


def table(cls):
    out = []
    for first, lst in cls.yaml_implicit_resolvers.items():
        out.append([first, [[tag, rx.pattern, rx.flags] for tag, rx in lst]])
    return out


loader = ld.get_yaml_default_loader()
print(json.dumps({
    "loader": table(loader),
    "dumper": table(captured["Dumper"]),
    "dump_kwargs": captured["kw"],
    "loader_is_c": loader.__mro__[1].__name__,
    "yaml_version": yaml.__version__,
}))

"""C04 runner: executes real jsonargparse parsers end to end on generated source scenarios.

stdin : {"cases": [case, ...]}   (format: see tie/props/c04.py)
stdout: last line = JSON list, per case {"values": [...], "extra": [...]} or {"error": "<exception class>"}

Every case gets its own scratch directory (default config files, --cfg files, env config file), its own
fresh parser and a cleaned os.environ.  Nothing is written outside tempfile.mkdtemp().
"""
import json
import os
import shutil
import sys
import tempfile

ENV_KEYS_PREFIXES = ("APP_", "JSONARGPARSE_DEFAULT_ENV")
META = {"__path__", "__orig__", "__default_config__"}


STR_KINDS = ("str", "optstr")
DECOY = {"scalar": 424242, "str": 424242, "optstr": 424242, "list": [424242], "nlist": [424242], "dict": {"zz": 424242}}


def pyval(v, kind):
    """The Python value of a generated value: tokens of a str-typed key are strings, token 0 the empty string."""
    if kind in STR_KINDS and isinstance(v, int):
        return "" if v == 0 else "t%d" % v
    return v


def doc_to_dict(doc, kinds=None):
    """The nested mapping for a list of assignments: inserted in order, 'key+' for an append."""
    d = {}
    for asg in doc:
        key, op, value = asg[0], asg[1], asg[2]
        value = pyval(value, (kinds or {}).get(key))
        parts = key.split(".")
        if op == "append":
            parts[-1] += "+"
        elif op != "set":
            raise ValueError("only set/append can be written in a document")
        cur = d
        for s in parts[:-1]:
            cur = cur.setdefault(s, {})
        cur[parts[-1]] = value
    return d


def render_doc(doc, fmt, kinds=None):
    import yaml

    d = doc_to_dict(doc, kinds)
    if fmt == "json":
        return json.dumps(d)
    if fmt == "yaml_flow":
        return yaml.safe_dump(d, sort_keys=False, default_flow_style=True)
    return yaml.safe_dump(d, sort_keys=False, default_flow_style=False)


def scalar_text(v, kind=None):
    v = pyval(v, kind)
    return json.dumps(v, separators=(",", ":")) if isinstance(v, (list, dict)) else str(v)


def env_name(prefix, key):
    """PREFIX_LEV__OPT as documented."""
    name = key.replace(".", "__").upper()
    return (prefix.upper() + "_" + name) if prefix else name


def canon(v, kind=None):
    if v is None:
        return None
    if kind in STR_KINDS:
        if v == "":
            return {"tok": 0}
        if isinstance(v, str) and v[:1] == "t" and v[1:].isdigit() and v[1:2] != "0":
            return {"tok": int(v[1:])}
        return {"bad": type(v).__name__}
    if isinstance(v, bool):
        return {"bad": "bool"}
    if isinstance(v, int):
        return {"tok": v}
    if isinstance(v, list) and all(isinstance(x, int) and not isinstance(x, bool) for x in v):
        return {"list": list(v)}
    if isinstance(v, dict) and all(isinstance(k, str) and isinstance(x, int) and not isinstance(x, bool) for k, x in v.items()):
        return {"dict": sorted([k, x] for k, x in v.items())}
    return {"bad": type(v).__name__}


def run_case(case, root):
    from typing import Dict, List

    from jsonargparse import ActionConfigFile, ArgumentParser

    from typing import Optional

    types = {"scalar": int, "str": str, "optstr": Optional[str], "list": List[int], "dict": Dict[str, int]}

    def add_arg(p, d):
        default = d["default"]
        if isinstance(default, (list, dict)):
            default = json.loads(json.dumps(default))
        if d["kind"] == "nlist":
            p.add_argument("--" + d["key"], type=int, nargs="+", default=default)
        else:
            p.add_argument("--" + d["key"], type=types[d["kind"]], default=pyval(default, d["kind"]))

    def env_text(value, kind):
        if kind == "nlist" and case.get("env_bare") and len(value) == 1:
            return str(value[0])
        return scalar_text(value, kind)

    sub = case.get("sub")
    kinds = {d["key"]: d["kind"] for d in case["parser"]}
    subkinds = {}
    if sub:
        subkinds = {d["key"]: d["kind"] for d in sub["decls"]}
        kinds.update({sub["name"] + "." + k: v for k, v in subkinds.items()})
    os.makedirs(root)
    for k in list(os.environ):
        if k.startswith(ENV_KEYS_PREFIXES) or k in case.get("_envnames", ()):
            del os.environ[k]
    set_names = []

    def setenv(k, v):
        os.environ[k] = v
        set_names.append(k)

    try:
        if case["os_default_env"] is not None:
            setenv("JSONARGPARSE_DEFAULT_ENV", case["os_default_env_text"])

        # default config files
        patterns = []
        for i, pat in enumerate(case["patterns"]):
            for m in pat["matches"]:
                with open(os.path.join(root, m["name"]), "w") as f:
                    f.write(render_doc(m["doc"], m["fmt"], kinds) if m["doc"] else m.get("blank", ""))
            patterns.append(os.path.join(root, pat["pattern"]))

        prefix_mode = case["env_prefix"]
        kwargs = {"exit_on_error": False, "default_env": case["default_env"]}
        if patterns or case["dcf_empty_list"]:
            kwargs["default_config_files"] = patterns
        if prefix_mode == "str":
            kwargs["env_prefix"] = "APP"
            prefix = "APP"
        elif prefix_mode == "prog":
            kwargs["prog"] = "app.py"
            prefix = "app"
        else:
            kwargs["env_prefix"] = False
            prefix = ""
        hist = case.get("history")
        if hist:
            # the parser starts its life with other settings; see "history" below
            kwargs["prog"] = "app.py"
            kwargs["default_env"] = hist["old_default_env"]
            kwargs["env_prefix"] = {"OLD": "OLD", "prog": True, "none": False}[hist["old_prefix"]]
        parser = ArgumentParser(**kwargs)
        decls = case["parser"]
        cfg_pos = case["cfg_pos"] % (len(decls) + 1)
        for n, d in enumerate(decls + [None]):
            if case.get("stage_at") is not None and n == case["stage_at"]:
                # two-stage parsing: a first environment-enabled parse while only part of the arguments exists
                try:
                    parser.parse_env({env_name(prefix, dd["key"]): scalar_text(DECOY[dd["kind"]], dd["kind"]) for dd in decls[:n]},
                                     defaults=False)
                except BaseException as ex:  # noqa: BLE001 - the warm-up answer is not what is observed
                    if isinstance(ex, KeyboardInterrupt):
                        raise
            if n == cfg_pos:
                parser.add_argument("--cfg", action=ActionConfigFile)
            if d is not None:
                add_arg(parser, d)

        if hist:
            oldp = {"OLD": "OLD", "prog": "app", "none": ""}[hist["old_prefix"]]
            for dd in decls:
                setenv(env_name(oldp, dd["key"]), scalar_text(DECOY[dd["kind"]], dd["kind"]))
            try:
                if hist["warm"] == "env":
                    parser.parse_env()
                elif hist["warm"] == "args":
                    parser.parse_args([], env=True)
                elif hist["warm"] == "string":
                    parser.parse_string("{}", env=True)
                else:
                    parser.parse_object({}, env=True)
            except BaseException as ex:  # noqa: BLE001 - the warm-up answer is not what is observed
                if isinstance(ex, KeyboardInterrupt):
                    raise
            parser.env_prefix = {"str": "APP", "prog": True, "none": False}[prefix_mode]
            parser.default_env = case["default_env"]

        # one level of subcommands: the chosen one (its keys are observed as "<name>.<key>") and a bystander
        if sub:
            subparsers = {}
            for nm, sdecls, has_cfg in [(sub["name"], sub["decls"], sub.get("has_cfg")), (sub["other"]["name"], sub["other"]["decls"], False)]:
                sp = ArgumentParser(exit_on_error=False)
                if has_cfg:
                    sp.add_argument("--cfg", action=ActionConfigFile)
                for d in sdecls:
                    add_arg(sp, d)
                subparsers[nm] = sp
            subcommands = parser.add_subcommands()
            for nm in (sorted(subparsers) if sub.get("sorted") else [sub["name"], sub["other"]["name"]]):
                subcommands.add_subcommand(nm, subparsers[nm])

        # environment
        environ = {}
        nfile = [0]

        def cfg_value(doc, how, fmt, kinds=kinds):
            if how == "string":
                return render_doc(doc, "json" if fmt == "yaml" else fmt, kinds).strip()
            nfile[0] += 1
            path = os.path.join(root, "cfg_%d.%s" % (nfile[0], "json" if fmt == "json" else "yaml"))
            with open(path, "w") as f:
                f.write(render_doc(doc, fmt, kinds))
            return path

        if case["envcfg"] is not None:
            e = case["envcfg"]
            environ[env_name(prefix, "cfg")] = envcfg_value = cfg_value(e["doc"], e["as"], e["fmt"])
        for key, value in case["envvars"]:
            environ[env_name(prefix, key)] = env_text(value, kinds[key])
        if sub:
            for key, value in sub["envvars"]:
                environ[env_name(prefix, sub["name"] + "." + key)] = env_text(value, subkinds[key])
            if sub.get("envsub") is not None:
                environ[env_name(prefix, "subcommand")] = sub["envsub"]

        entry = case["entry"]
        env_arg = case["env_arg"]
        use_dict = entry["kind"] == "env" and entry.get("as_dict")
        if not use_dict:
            for k, v in environ.items():
                setenv(k, v)
        else:
            # an explicit mapping replaces the process environment completely: fill os.environ with decoy values
            # for every declared key so that any fall-back to os.environ (e.g. for an empty mapping) shows
            for d in decls:
                setenv(env_name(prefix, d["key"]), scalar_text(DECOY[d["kind"]], d["kind"]))

        if entry["kind"] == "args":
            argv = []
            cfg_paths = {}   # file id -> path, for a config file that is given more than once
            items = [(it, kinds) for it in entry["argv"]]
            if sub:
                # the subcommand token, then the items addressed to the subcommand's parser (keys relative to it)
                items += [(None, None)] + [(it, subkinds) for it in sub["argv"]]
            for it, ikinds in items:
                if it is None:
                    argv.append(sub["name"])
                    continue
                if "cfg" in it:
                    fid = it.get("fid")
                    if fid == "envcfg":
                        val = envcfg_value               # the very file the config environment variable names
                    elif fid is not None and fid in cfg_paths:
                        val = cfg_paths[fid]             # the same file (same path) given again
                    else:
                        val = cfg_value(it["cfg"], it["as"], it["fmt"], ikinds)
                        if fid is not None:
                            cfg_paths[fid] = val
                    argv += ["--cfg=" + val] if it["style"] == "eq" else ["--cfg", val]
                    continue
                a = it["asg"]
                key, op = a[0], a[1]
                if op == "set" and ikinds[key] == "nlist":
                    argv += ["--" + key] + [str(x) for x in a[2]]       # nargs="+": --key 1 2 3
                    continue
                if op == "set":
                    opt, text = "--" + key, scalar_text(a[2], ikinds[key])
                elif op == "append":
                    opt, text = "--" + key + "+", scalar_text(a[2])
                else:
                    opt, text = "--%s.%s" % (key, a[2]), scalar_text(a[3])
                argv += [opt + "=" + text] if it["style"] == "eq" else [opt, text]
            if entry.get("via_sysargv"):
                saved = sys.argv
                sys.argv = ["prog"] + argv
                try:
                    res = parser.parse_args(env=env_arg)
                finally:
                    sys.argv = saved
            else:
                res = parser.parse_args(argv, env=env_arg)
        elif entry["kind"] == "env":
            res = parser.parse_env(environ) if use_dict else parser.parse_env()
        elif entry["kind"] == "string":
            res = parser.parse_string(render_doc(entry["doc"], entry["fmt"], kinds), env=env_arg)
        elif entry["kind"] == "object":
            res = parser.parse_object(doc_to_dict(entry["doc"], kinds), env=env_arg)
        else:
            raise ValueError(entry["kind"])

        observed = [(d["key"], d["kind"]) for d in decls]
        ignore = {"cfg"}
        if sub:
            observed += [(sub["name"] + "." + d["key"], d["kind"]) for d in sub["decls"]]
            ignore |= {"subcommand", sub["name"] + ".cfg"}
        declared = {k for k, _ in observed}
        values = [canon(res.get(k), kind) for k, kind in observed]
        extra = sorted(k for k in res.keys() if k not in declared and k not in ignore and k.split(".")[-1] not in META)
        return {"values": values, "extra": extra}
    except BaseException as ex:  # noqa: BLE001 - SystemExit included: every failure is an observation
        if isinstance(ex, KeyboardInterrupt):
            raise
        return {"error": type(ex).__name__, "msg": str(ex)[:200]}
    finally:
        for k in set_names:
            os.environ.pop(k, None)


def main():
    payload = json.load(sys.stdin)
    base = tempfile.mkdtemp(prefix="jv_c04_")
    out = []
    cwd = os.getcwd()
    try:
        os.chdir(base)
        for n, case in enumerate(payload["cases"]):
            out.append(run_case(case, os.path.join(base, "c%d" % n)))
    finally:
        os.chdir(cwd)
        shutil.rmtree(base, ignore_errors=True)
    print(json.dumps(out))


if __name__ == "__main__":
    main()

"""Runs the real DirectedGraph on edge lists. stdin: {"cases": [[ [s,t], ... ], ...]}"""
import json
import re
import sys

from jsonargparse._link_arguments import DirectedGraph

cases = json.load(sys.stdin)["cases"]
out = []
for edges in cases:
    g = DirectedGraph()
    try:
        for s, t in edges:
            g.add_edge(s, t)
        out.append({"order": g.get_topological_order()})
    except ValueError as e:
        m = re.search(r"found while checking (\S+) --> (\S+)$", str(e))
        out.append({"cycle": [m.group(1), m.group(2)]} if m else {"other": "ValueError:" + str(e)})
    except BaseException as e:  # noqa
        out.append({"other": type(e).__name__})
print(json.dumps(out))

"""Runs the real jsonargparse.typing on C20 cases. stdin: {"cases": [case, ...]}; stdout: JSON list.

Value encoding (pv): {"i": "<int>"} {"f": "<repr>|inf|-inf|nan"} {"b": bool} {"s": str} {"none": 1}
{"other": "list"|"dict"}.
"""
import json
import os
import shutil
import sys
import tempfile
import warnings

warnings.simplefilter("ignore")

from jsonargparse import ActionConfigFile, ArgumentError, ArgumentParser, Namespace  # noqa: E402
from jsonargparse.typing import SecretStr, get_registered_type, restricted_number_type, restricted_string_type  # noqa: E402
from jsonargparse._util import parse_value_or_config  # noqa: E402


def dec_pv(pv):
    if "i" in pv:
        return int(pv["i"])
    if "f" in pv:
        return float(pv["f"])
    if "b" in pv:
        return bool(pv["b"])
    if "s" in pv:
        return pv["s"]
    if "none" in pv:
        return None
    return [1] if pv["other"] == "list" else {"a": 1}


def enc_pv(v):
    if isinstance(v, bool):
        return {"b": v}
    if isinstance(v, int):
        return {"i": str(int(v))}
    if isinstance(v, float):
        v = float(v)
        if v == v and v not in (float("inf"), float("-inf")) and abs(v) >= 1e15 and v == int(v):
            return {"f": "%d.0" % int(v)}  # every digit of an integer-valued double (repr would shorten it)
        return {"f": repr(v)}
    if isinstance(v, str):
        return {"s": str(v)}
    if v is None:
        return {"none": 1}
    return {"other": "list" if isinstance(v, list) else "dict"}


_types = {}


def get_type(case):
    """The type of the case, created once per process the way the case's "after" history says: the restrictions
    are handed over as a caller-owned list object (or, kind "tuple", as the bare pair) and that list is changed
    AFTER the type exists (a caller growing / reusing one working list); with "rebuild" a further type is then
    created from the changed list. The type must keep the comparisons stated at its creation."""
    base = int if case["base"] == "int" else float
    restr = [(sym, dec_pv(ref)) for sym, ref in case["restr"]]
    try:
        key = (tuple(sorted(restr)), base, case["join"])
        hash(key)
    except TypeError:
        key = (repr(restr), base, case["join"])
    if key not in _types:
        from jsonargparse.typing import registered_types

        if key in registered_types:  # one of the predefined types (PositiveInt, ...) or created by a "rebuild"
            _types[key] = registered_types[key]
        else:
            after = case.get("after") or {"kind": "none"}
            kind = after.get("kind", "none")
            name = "C20T%d" % len(_types)
            if kind == "tuple" and len(restr) == 1:
                _types[key] = restricted_number_type(name, base, restr[0], join=case["join"])
            else:
                working = list(restr)  # the caller's list object
                _types[key] = restricted_number_type(name, base, working, join=case["join"])
                cmp = None
                if after.get("cmp"):
                    cmp = (after["cmp"][0], dec_pv(after["cmp"][1]))
                if kind in ("append", "tuple") and cmp:
                    working.append(cmp)
                elif kind == "clear":
                    working.clear()
                elif kind == "set0" and cmp:
                    if working:
                        working[0] = cmp
                    else:
                        working.append(cmp)
                elif kind == "pop_append" and cmp:
                    if working:
                        working.pop()
                    working.insert(0, cmp)
                if after.get("rebuild") and kind != "none":
                    try:  # the next type of the family, from the same (changed) list object
                        restricted_number_type(name + "next", base, working, join=case["join"])
                    except ValueError:
                        pass  # same restrictions already registered under another name
    return _types[key], base


_parsers = {}


def parser_for(T):
    if T not in _parsers:
        p = ArgumentParser(exit_on_error=False)
        p.add_argument("--cfg", action=ActionConfigFile)
        p.add_argument("--k", type=T)
        act = [a for a in p._actions if a.dest == "k"][0]
        _parsers[T] = (p, act)
    return _parsers[T]


def same(a, b):
    return repr(a) == repr(b) if (a != a or b != b) else a == b


def run_num(case):
    T, base = get_type(case)
    v = dec_pv(case["value"])
    try:
        r = T(v)
    except Exception as e:  # any exception = not accepted
        return {"acc": None, "exc": type(e).__name__, "extras_ok": True}
    extras = type(r) is T and same(base(r), base(v))
    try:
        r2 = T(r)
        extras = extras and type(r2) is T and same(base(r2), base(r))
    except Exception:
        extras = False
    return {"acc": enc_pv(base(r)), "extras_ok": bool(extras)}


def run_numparse(case):
    T, base = get_type(case)
    p, act = parser_for(T)
    v = dec_pv(case["value"])
    if case["channel"] == "argv":
        try:
            from jsonargparse._common import parser_context

            with parser_context(parent_parser=p, load_value_mode=p.parser_mode):
                loaded = parse_value_or_config(v, enable_path=getattr(act, "_enable_path", False))[0]
        except Exception as e:
            return {"crash": "loader:" + type(e).__name__}
        call = lambda: p.parse_args(["--k=" + v])  # noqa: E731
    else:
        loaded = v
        call = lambda: p.parse_object({"k": v})  # noqa: E731
    out = {"loaded": enc_pv(loaded), "orig": enc_pv(v)}
    try:
        r = call().k
    except ArgumentError:
        out["acc"] = None
        return out
    except BaseException as e:  # noqa
        out["crash"] = type(e).__name__
        return out
    if type(r) is not T:
        out["crash"] = "result of type " + type(r).__name__
        return out
    out["acc"] = enc_pv(base(r))
    return out


scratch = None


def channels(T, v, eq=None):
    """dump -> parse_string, argv, config file. Returns dict of per-channel results."""
    global scratch
    p, act = parser_for(T)
    eq = eq or (lambda a, b: type(a) is type(b) and a == b)
    res = {}
    handler = get_registered_type(T)
    ser = handler.serializer(v)
    res["ser"] = ser if isinstance(ser, str) else repr(ser)
    res["ser_type"] = type(ser).__name__
    try:
        dump = p.dump(Namespace(k=v))
        res["dump"] = dump
    except BaseException as e:  # noqa
        res["dump_exc"] = type(e).__name__
        return res, {}
    vals = {}
    for name, fn in (
        ("string", lambda: p.parse_string(dump).k),
        ("argv", lambda: p.parse_args(["--k=" + res["ser"]]).k),
        ("file", lambda: parse_file(p, dump)),
        ("json", lambda: p.parse_string(p.dump(Namespace(k=v), format="json")).k),
        ("object", lambda: p.parse_object({"k": v}).k),  # a value of the type passes the registered-type branch unchanged
        # histories: parse, change the value handed out IN PLACE when it is mutable (code that uses it as a buffer),
        # parse the same text again — with the same parser and with a new one: every parse gives the original value
        ("reparse", lambda: reparse(p, lambda q: q.parse_args(["--k=" + res["ser"]]).k)),
        ("reparse_string", lambda: reparse(p, lambda q: q.parse_string(dump).k, fresh=T)),
    ):
        try:
            c = fn()
            vals[name] = c
            res[name] = bool(eq(c, v))
            if not res[name]:
                res[name + "_got"] = repr(c)[:200]
        except BaseException as e:  # noqa
            res[name] = False
            res[name + "_exc"] = type(e).__name__ + ": " + str(e)[:120]
    return res, vals


def mutate_in_place(x):
    """what a program may do with a mutable value it was handed; immutable values are left alone"""
    if isinstance(x, bytearray):
        x.extend(b"\x00tail")
        x.reverse()
        return True
    if isinstance(x, (list, set, dict)):
        x.clear()
        return True
    return False


def reparse(p, parse, fresh=None):
    first = parse(p)
    mutate_in_place(first)
    q = p
    if fresh is not None:  # a second parser for the same type
        q = ArgumentParser(exit_on_error=False)
        q.add_argument("--cfg", action=ActionConfigFile)
        q.add_argument("--k", type=fresh)
    second = parse(q)
    mutate_in_place(second)
    return parse(p)


def parse_file(p, dump):
    global scratch
    if scratch is None:
        scratch = tempfile.mkdtemp(prefix="jv_c20_")
    path = os.path.join(scratch, "cfg.yaml")
    with open(path, "w") as f:
        f.write(dump)
    return p.parse_args(["--cfg", path]).k


def run_range(case):
    r = range(int(case["start"]), int(case["stop"]), int(case["step"]))
    res, _ = channels(range, r)
    h = get_registered_type(range)
    try:
        back = h.deserializer(res["ser"])
        res["back"] = [str(back.start), str(back.stop), str(back.step)]
    except ValueError:
        res["back"] = None
    res["chan_ok"] = all(res.get(k) is True for k in ("string", "argv", "file", "json", "object", "reparse", "reparse_string"))
    return res


def run_rangedes(case):
    h = get_registered_type(range)
    try:
        back = h.deserializer(dec_pv(case["value"]))
        return {"back": [str(back.start), str(back.stop), str(back.step)]}
    except ValueError:
        return {"back": None}
    except BaseException as e:  # noqa
        return {"crash": type(e).__name__}


def td_total(td):
    from datetime import timedelta

    return str(td // timedelta(microseconds=1))


def run_td(case):
    from datetime import timedelta

    td = timedelta(microseconds=1) * int(case["total"])
    res, _ = channels(timedelta, td)
    res.update(run_tddes({"value": {"s": res["ser"]}}))
    res["chan_ok"] = all(res.get(k) is True for k in ("string", "argv", "file", "json", "object", "reparse", "reparse_string"))
    return res


def run_tddes(case):
    from datetime import timedelta

    h = get_registered_type(timedelta)
    try:
        return {"back": {"ok": td_total(h.deserializer(dec_pv(case["value"])))}}
    except ValueError:
        return {"back": {"rej": 1}}
    except OverflowError:
        return {"back": {"overflow": 1}}
    except BaseException as e:  # noqa
        return {"crash": type(e).__name__}


def run_secret(case):
    global scratch
    s = case["secret"]
    v = SecretStr(s)
    p, act = parser_for(SecretStr)
    h = get_registered_type(SecretStr)
    out = {"ser": h.serializer(v)}
    texts = []
    cfg = p.parse_args(["--k=" + s])
    # informative only (the property does not say what --k=null or --k=[1] must give for a secret)
    out["argv_kept"] = type(cfg.k) is SecretStr and cfg.k.get_secret_value() == s
    same = p.parse_object({"k": v}).k  # a SecretStr passes the registered-type branch unchanged
    out["parsed_ok"] = bool(type(same) is SecretStr and same.get_secret_value() == s)
    for c in (Namespace(k=v), cfg):
        texts.append(p.dump(c))
        texts.append(p.dump(c, format="json"))
    if scratch is None:
        scratch = tempfile.mkdtemp(prefix="jv_c20_")
    path = os.path.join(scratch, "saved.yaml")
    p.save(cfg, path, overwrite=True)
    texts.append(open(path).read())
    texts.append(str(cfg))
    texts.append(repr(cfg.k))
    out["leaked"] = any(s in t for t in texts)
    out["dump"] = texts[0]
    return out


def dec_tuple(d):
    sign, digits, exp = d.as_tuple()
    m = int("".join(map(str, digits)) or "0")
    return [str(-m if sign else m), exp]


def run_decimal(case):
    import decimal
    from decimal import Decimal

    # built from the digit tuple: exact whatever the context precision (scaleb / arithmetic would round)
    m = int(case["mant"])
    d = Decimal((1 if m < 0 else 0, tuple(int(c) for c in str(abs(m))), int(case["exp"])))
    assert dec_tuple(d) == [str(m), int(case["exp"])] or m == 0, (dec_tuple(d), case)
    # the ambient decimal context of the process: the default (28 digits) or one the program lowered / raised
    with decimal.localcontext() as ctx:
        if case.get("prec"):
            ctx.prec = int(case["prec"])
        return _run_decimal(case, d)


def _run_decimal(case, d):
    from decimal import Decimal

    res, vals = channels(Decimal, d)
    x = float(d)
    if x in (float("inf"), float("-inf")):
        res["dbl"] = res["text"] = None
    else:
        n, den = x.as_integer_ratio()
        e2 = -(den.bit_length() - 1)
        res["dbl"] = [str(n), e2]
        res["text"] = dec_tuple(Decimal(repr(x)))
    res["ser_float"] = res["ser_type"] == "float"
    if res["ser_type"] not in ("float", "str"):
        return {"crash": "serializer returned " + res["ser_type"]}
    res["file_equal"] = bool(res.get("string") is True and res.get("file") is True and res.get("object") is True
                             and res.get("reparse_string") is True)
    res["argv_equal"] = bool(res.get("argv") is True and res.get("reparse") is True)
    res["json_equal"] = bool(res.get("json") is True)
    return res


def run_builtin(case):
    import pathlib
    import uuid

    t = case["type"]
    if t == "complex":
        T, v = complex, complex(float(case["re"]), float(case["im"]))
        eq = lambda a, b: type(a) is type(b) and repr(a) == repr(b)  # noqa: E731  (keeps -0.0 and 0.0 apart)
    elif t == "uuid":
        T, v, eq = uuid.UUID, uuid.UUID(int=int(case["int"])), None
    elif t == "bytes":
        T, v, eq = bytes, bytes.fromhex(case["hex"]), None
    elif t == "bytearray":
        T, v, eq = bytearray, bytearray.fromhex(case["hex"]), None
    elif t == "path":
        T, v, eq = pathlib.Path, pathlib.Path(case["path"]), None
    elif t == "posixpath":
        T, v, eq = pathlib.PosixPath, pathlib.PosixPath(case["path"]), None
    else:
        raise SystemExit("unknown builtin " + t)
    res, _ = channels(T, v, eq)
    res["all_equal"] = all(res.get(k) is True for k in ("string", "argv", "file", "json", "object", "reparse", "reparse_string"))
    return res


RE_FLAGS = {"I": "IGNORECASE", "M": "MULTILINE", "S": "DOTALL", "X": "VERBOSE"}


def _compile(regex, flags):
    import re

    bits = 0
    for f in flags:
        bits |= getattr(re, RE_FLAGS[f])
    return re.compile(regex, bits)


def run_rstr(case):
    import re

    flags = case.get("flags", "")
    key = ("rstr", case["regex"], flags)
    if key not in _types:
        from jsonargparse.typing import registered_types

        # a type already registered for this pattern text (the predefined NotEmptyStr / Email): whatever else the
        # register key holds, its first component is "matching <text>" and its last is str
        known = [t for k, t in registered_types.items()
                 if isinstance(k, tuple) and k and k[0] == "matching " + case["regex"] and k[-1] is str]
        if known and "predefined" in case:
            _types[key] = known[0]
        else:
            regex = case["regex"]
            if flags or case.get("compiled"):  # handed over as a compiled Pattern (Union[str, Pattern]) with its flags
                regex = _compile(regex, flags)
            name = known[0].__name__ if known and not flags else "C20S%d" % len(_types)
            _types[key] = restricted_string_type(name, regex)
    T = _types[key]
    v = dec_pv(case["value"])
    try:
        r = T(v)
    except Exception as e:
        return {"acc": None, "exc": type(e).__name__}
    ok = type(r) is T and str(r) == v
    try:
        r2 = T(r)
        ok = ok and type(r2) is T and str(r2) == str(r)
    except Exception:
        ok = False
    return {"acc": str(r), "extras_ok": bool(ok)}


_hist = {}


def run_rstrhist(case):
    """A registry history: one pattern text, first registered as type A with flags1, then handed to
    restricted_string_type again with flags2 under the same or another name; the type the second call
    returns (if any) is asked about the value."""
    key = (case["regex"], case["flags1"], case["flags2"], case["same_name"])
    if key not in _hist:
        n = len(_hist)
        restricted_string_type("C20H%dA" % n, _compile(case["regex"], case["flags1"]))
        try:
            _hist[key] = restricted_string_type("C20H%d%s" % (n, "A" if case["same_name"] else "B"),
                                                _compile(case["regex"], case["flags2"]))
        except ValueError:
            _hist[key] = None
    T = _hist[key]
    if T is None:
        return {"created": False, "acc": None}
    v = dec_pv(case["value"])
    try:
        r = T(v)
    except Exception as e:
        return {"created": True, "acc": None, "exc": type(e).__name__}
    return {"created": True, "acc": str(r)}


RUN = {
    "num": run_num, "numparse": run_numparse, "range": run_range, "rangedes": run_rangedes, "td": run_td,
    "tddes": run_tddes, "secret": run_secret, "decimal": run_decimal, "builtin": run_builtin, "rstr": run_rstr, "rstrhist": run_rstrhist,
}

cases = json.load(sys.stdin)["cases"]
out = []
try:
    for c in cases:
        try:
            out.append(RUN[c["kind"]](c))
        except Exception as e:  # harness-level failure: reported, never hidden
            out.append({"harness_error": type(e).__name__ + ": " + str(e)[:300]})
finally:
    if scratch:
        shutil.rmtree(scratch, ignore_errors=True)
print(json.dumps(out))

"""Runs the real jsonargparse.typing on C20 cases. stdin: {"cases": [case, ...]}; stdout: JSON list.

Value encoding (pv): {"i": "<int>"} {"f": "<repr>|inf|-inf|nan"} {"b": bool} {"s": str} {"none": 1}
{"other": "list"|"dict"}.
"""
import json
import os
import shutil
import sys
import tempfile
import warnings

warnings.simplefilter("ignore")

from jsonargparse import ActionConfigFile, ArgumentError, ArgumentParser, Namespace  # noqa: E402
from jsonargparse.typing import SecretStr, get_registered_type, restricted_number_type, restricted_string_type  # noqa: E402
from jsonargparse._util import parse_value_or_config  # noqa: E402


def dec_pv(pv):
    if "i" in pv:
        return int(pv["i"])
    if "f" in pv:
        return float(pv["f"])
    if "b" in pv:
        return bool(pv["b"])
    if "s" in pv:
        return pv["s"]
    if "none" in pv:
        return None
    return [1] if pv["other"] == "list" else {"a": 1}


def enc_pv(v):
    if isinstance(v, bool):
        return {"b": v}
    if isinstance(v, int):
        return {"i": str(int(v))}
    if isinstance(v, float):
        v = float(v)
        if v == v and v not in (float("inf"), float("-inf")) and abs(v) >= 1e15 and v == int(v):
            return {"f": "%d.0" % int(v)}  # every digit of an integer-valued double (repr would shorten it)
        return {"f": repr(v)}
    if isinstance(v, str):
        return {"s": str(v)}
    if v is None:
        return {"none": 1}
    return {"other": "list" if isinstance(v, list) else "dict"}


_types = {}


def get_type(case):
    """The type of the case, created once per process the way the case's "after" history says: the restrictions
    are handed over as a caller-owned list object (or, kind "tuple", as the bare pair) and that list is changed
    AFTER the type exists (a caller growing / reusing one working list); with "rebuild" a further type is then
    created from the changed list. The type must keep the comparisons stated at its creation."""
    base = int if case["base"] == "int" else float
    restr = [(sym, dec_pv(ref)) for sym, ref in case["restr"]]
    try:
        key = (tuple(sorted(restr)), base, case["join"])
        hash(key)
    except TypeError:
        key = (repr(restr), base, case["join"])
    if key not in _types:
        from jsonargparse.typing import registered_types

        if key in registered_types:  # one of the predefined types (PositiveInt, ...) or created by a "rebuild"
            _types[key] = registered_types[key]
        else:
            after = case.get("after") or {"kind": "none"}
            kind = after.get("kind", "none")
            name = "C20T%d" % len(_types)
            if kind == "tuple" and len(restr) == 1:
                _types[key] = restricted_number_type(name, base, restr[0], join=case["join"])
            else:
                working = list(restr)  # the caller's list object
                if kind == "none" and "after" in case:
                    # no history: the type gets its automatic name (name=None); two types whose automatic names fall
                    # together ("float_gt15" for 1.5 and 15) are refused by add_type — then an explicit name is given
                    try:
                        _types[key] = restricted_number_type(None, base, working, join=case["join"])
                    except ValueError:
                        _types[key] = restricted_number_type(name, base, working, join=case["join"])
                else:
                    _types[key] = restricted_number_type(name, base, working, join=case["join"])
                cmp = None
                if after.get("cmp"):
                    cmp = (after["cmp"][0], dec_pv(after["cmp"][1]))
                if kind in ("append", "tuple") and cmp:
                    working.append(cmp)
                elif kind == "clear":
                    working.clear()
                elif kind == "set0" and cmp:
                    if working:
                        working[0] = cmp
                    else:
                        working.append(cmp)
                elif kind == "pop_append" and cmp:
                    if working:
                        working.pop()
                    working.insert(0, cmp)
                if after.get("rebuild") and kind != "none":
                    try:  # the next type of the family, from the same (changed) list object
                        restricted_number_type(name + "next", base, working, join=case["join"])
                    except ValueError:
                        pass  # same restrictions already registered under another name
    return _types[key], base


_parsers = {}


def parser_for(T):
    if T not in _parsers:
        p = ArgumentParser(exit_on_error=False)
        p.add_argument("--cfg", action=ActionConfigFile)
        p.add_argument("--k", type=T)
        act = [a for a in p._actions if a.dest == "k"][0]
        _parsers[T] = (p, act)
    return _parsers[T]


def same(a, b):
    return repr(a) == repr(b) if (a != a or b != b) else a == b


def run_num(case):
    T, base = get_type(case)
    v = dec_pv(case["value"])
    try:
        r = T(v)
    except Exception as e:  # any exception = not accepted
        return {"acc": None, "exc": type(e).__name__, "extras_ok": True}
    extras = type(r) is T and same(base(r), base(v))
    try:
        r2 = T(r)
        extras = extras and type(r2) is T and same(base(r2), base(r))
    except Exception:
        extras = False
    return {"acc": enc_pv(base(r)), "extras_ok": bool(extras)}


def run_numparse(case):
    T, base = get_type(case)
    p, act = parser_for(T)
    v = dec_pv(case["value"])
    if case["channel"] == "argv":
        try:
            from jsonargparse._common import parser_context

            with parser_context(parent_parser=p, load_value_mode=p.parser_mode):
                loaded = parse_value_or_config(v, enable_path=getattr(act, "_enable_path", False))[0]
        except Exception as e:
            return {"crash": "loader:" + type(e).__name__}
        call = lambda: p.parse_args(["--k=" + v])  # noqa: E731
    else:
        loaded = v
        call = lambda: p.parse_object({"k": v})  # noqa: E731
    out = {"loaded": enc_pv(loaded), "orig": enc_pv(v)}
    try:
        r = call().k
    except ArgumentError:
        out["acc"] = None
        return out
    except BaseException as e:  # noqa
        out["crash"] = type(e).__name__
        return out
    if type(r) is not T:
        out["crash"] = "result of type " + type(r).__name__
        return out
    out["acc"] = enc_pv(base(r))
    return out


scratch = None


def channels(T, v, eq=None):
    """dump -> parse_string, argv, config file. Returns dict of per-channel results."""
    global scratch
    p, act = parser_for(T)
    eq = eq or (lambda a, b: type(a) is type(b) and a == b)
    res = {}
    handler = get_registered_type(T)
    ser = handler.serializer(v)
    res["ser"] = ser if isinstance(ser, str) else repr(ser)
    res["ser_type"] = type(ser).__name__
    try:
        dump = p.dump(Namespace(k=v))
        res["dump"] = dump
    except BaseException as e:  # noqa
        res["dump_exc"] = type(e).__name__
        return res, {}
    vals = {}
    for name, fn in (
        ("string", lambda: p.parse_string(dump).k),
        ("argv", lambda: p.parse_args(["--k=" + res["ser"]]).k),
        ("file", lambda: parse_file(p, dump)),
        ("json", lambda: p.parse_string(p.dump(Namespace(k=v), format="json")).k),
        ("object", lambda: p.parse_object({"k": v}).k),  # a value of the type passes the registered-type branch unchanged
        # histories: parse, change the value handed out IN PLACE when it is mutable (code that uses it as a buffer),
        # parse the same text again — with the same parser and with a new one: every parse gives the original value
        ("reparse", lambda: reparse(p, lambda q: q.parse_args(["--k=" + res["ser"]]).k)),
        ("reparse_string", lambda: reparse(p, lambda q: q.parse_string(dump).k, fresh=T)),
    ):
        try:
            c = fn()
            vals[name] = c
            res[name] = bool(eq(c, v))
            if not res[name]:
                res[name + "_got"] = repr(c)[:200]
        except BaseException as e:  # noqa
            res[name] = False
            res[name + "_exc"] = type(e).__name__ + ": " + str(e)[:120]
    # the same value under an Any-typed argument (serialised by the handler of type(value)) and inside containers
    # (Optional / List / Dict): every dump shows the same config representation, every parse gives equal values back
    from typing import Any, Dict, List, Optional

    def all_eq(got, want):
        if isinstance(want, list):
            return isinstance(got, list) and len(got) == len(want) and all(eq(a, b) for a, b in zip(got, want))
        if isinstance(want, dict):
            return isinstance(got, dict) and sorted(got) == sorted(want) and all(eq(got[k], want[k]) for k in want)
        return bool(eq(got, want))

    nested = True
    try:
        qa, _ = parser_for(Any)
        if qa.dump(Namespace(k=v)) != dump:
            nested = False
            res["any_dump"] = qa.dump(Namespace(k=v))[:200]
        import yaml

        try:
            spells_none = isinstance(ser, str) and yaml.safe_load(ser) is None
        except yaml.YAMLError:
            spells_none = False
        for hint, val in ((Optional[T], v), (List[T], [v, v]), (Dict[str, T], {"a": v, "b": v})):
            if hint == Optional[T] and spells_none:
                continue  # a text that spells None ("null", "~", "#c", "&a") IS None for an Optional argument (C02's business)
            q, _ = parser_for(hint)
            d = q.dump(Namespace(k=val))
            dj = q.dump(Namespace(k=val), format="json")
            for label, got in (("string", q.parse_string(d).k), ("json", q.parse_string(dj).k), ("file", parse_file(q, d)),
                               ("object", q.parse_object({"k": val}).k)):
                if not all_eq(got, val):
                    nested = False
                    res["nested_got"] = "%s %s: %r" % (getattr(hint, "_name", hint), label, got)
                    res["nested_got"] = res["nested_got"][:200]
    except BaseException as e:  # noqa
        nested = False
        res["nested_exc"] = type(e).__name__ + ": " + str(e)[:160]
    res["nested"] = nested
    return res, vals


def mutate_in_place(x):
    """what a program may do with a mutable value it was handed; immutable values are left alone"""
    if isinstance(x, bytearray):
        x.extend(b"\x00tail")
        x.reverse()
        return True
    if isinstance(x, (list, set, dict)):
        x.clear()
        return True
    return False


def reparse(p, parse, fresh=None):
    first = parse(p)
    mutate_in_place(first)
    q = p
    if fresh is not None:  # a second parser for the same type
        q = ArgumentParser(exit_on_error=False)
        q.add_argument("--cfg", action=ActionConfigFile)
        q.add_argument("--k", type=fresh)
    second = parse(q)
    mutate_in_place(second)
    return parse(p)


def parse_file(p, dump):
    global scratch
    if scratch is None:
        scratch = tempfile.mkdtemp(prefix="jv_c20_")
    path = os.path.join(scratch, "cfg.yaml")
    with open(path, "w") as f:
        f.write(dump)
    return p.parse_args(["--cfg", path]).k


def run_range(case):
    r = range(int(case["start"]), int(case["stop"]), int(case["step"]))
    res, _ = channels(range, r)
    h = get_registered_type(range)
    try:
        back = h.deserializer(res["ser"])
        res["back"] = [str(back.start), str(back.stop), str(back.step)]
    except ValueError:
        res["back"] = None
    res["chan_ok"] = all(res.get(k) is True for k in ("string", "argv", "file", "json", "object", "reparse", "reparse_string", "nested"))
    return res


def run_rangedes(case):
    h = get_registered_type(range)
    try:
        back = h.deserializer(dec_pv(case["value"]))
        return {"back": [str(back.start), str(back.stop), str(back.step)]}
    except ValueError:
        return {"back": None}
    except BaseException as e:  # noqa
        return {"crash": type(e).__name__}


def td_total(td):
    from datetime import timedelta

    return str(td // timedelta(microseconds=1))


def run_td(case):
    from datetime import timedelta

    td = timedelta(microseconds=1) * int(case["total"])
    res, _ = channels(timedelta, td)
    res.update(run_tddes({"value": {"s": res["ser"]}}))
    res["chan_ok"] = all(res.get(k) is True for k in ("string", "argv", "file", "json", "object", "reparse", "reparse_string", "nested"))
    return res


def run_tddes(case):
    from datetime import timedelta

    h = get_registered_type(timedelta)
    try:
        return {"back": {"ok": td_total(h.deserializer(dec_pv(case["value"])))}}
    except ValueError:
        return {"back": {"rej": 1}}
    except OverflowError:
        return {"back": {"overflow": 1}}
    except BaseException as e:  # noqa
        return {"crash": type(e).__name__}


def run_secret(case):
    global scratch
    s = case["secret"]
    v = SecretStr(s)
    p, act = parser_for(SecretStr)
    h = get_registered_type(SecretStr)
    out = {"ser": h.serializer(v)}
    texts = []
    cfg = p.parse_args(["--k=" + s])
    # informative only (the property does not say what --k=null or --k=[1] must give for a secret)
    out["argv_kept"] = type(cfg.k) is SecretStr and cfg.k.get_secret_value() == s
    same = p.parse_object({"k": v}).k  # a SecretStr passes the registered-type branch unchanged
    out["parsed_ok"] = bool(type(same) is SecretStr and same.get_secret_value() == s)
    # "an equal value": equality of secrets is equality of what they hold (same length, other content differs),
    # consistent with hash and len; a secret is no plain string
    other = SecretStr(s[1:] + ("x" if s[0] != "x" else "y"))

    def eq_sound(x):
        return bool(x == SecretStr(s) and x == v and not (x != v) and x != other and not (x == other) and x != s
                    and hash(x) == hash(SecretStr(s)) and len(x) == len(s) and len({x, v, other}) == 2)

    out["parsed_ok"] = out["parsed_ok"] and eq_sound(same) and (eq_sound(cfg.k) if out["argv_kept"] else True)
    for c in (Namespace(k=v), cfg):
        texts.append(p.dump(c))
        texts.append(p.dump(c, format="json"))
    # dumped under an Any-typed argument and inside containers the secret is masked as well
    from typing import Any, Dict, List, Optional
    for hint, val in ((Any, v), (Optional[SecretStr], v), (List[SecretStr], [v, v]), (Dict[str, SecretStr], {"a": v})):
        q, _ = parser_for(hint)
        texts.append(q.dump(Namespace(k=val)))
        texts.append(q.dump(Namespace(k=val), format="json"))
    if scratch is None:
        scratch = tempfile.mkdtemp(prefix="jv_c20_")
    path = os.path.join(scratch, "saved.yaml")
    p.save(cfg, path, overwrite=True)
    texts.append(open(path).read())
    texts.append(str(cfg))
    texts.append(repr(cfg.k))
    out["leaked"] = any(s in t for t in texts)
    out["dump"] = texts[0]
    return out


def dec_tuple(d):
    sign, digits, exp = d.as_tuple()
    m = int("".join(map(str, digits)) or "0")
    return [str(-m if sign else m), exp]


def run_decimal(case):
    import decimal
    from decimal import Decimal

    # built from the digit tuple: exact whatever the context precision (scaleb / arithmetic would round)
    m = int(case["mant"])
    d = Decimal((1 if m < 0 else 0, tuple(int(c) for c in str(abs(m))), int(case["exp"])))
    assert dec_tuple(d) == [str(m), int(case["exp"])] or m == 0, (dec_tuple(d), case)
    # the ambient decimal context of the process: the default (28 digits) or one the program lowered / raised
    with decimal.localcontext() as ctx:
        if case.get("prec"):
            ctx.prec = int(case["prec"])
        return _run_decimal(case, d)


def _run_decimal(case, d):
    from decimal import Decimal

    res, vals = channels(Decimal, d)
    x = float(d)
    if x in (float("inf"), float("-inf")):
        res["dbl"] = res["text"] = None
    else:
        n, den = x.as_integer_ratio()
        e2 = -(den.bit_length() - 1)
        res["dbl"] = [str(n), e2]
        res["text"] = dec_tuple(Decimal(repr(x)))
    res["ser_float"] = res["ser_type"] == "float"
    if res["ser_type"] not in ("float", "str"):
        return {"crash": "serializer returned " + res["ser_type"]}
    res["file_equal"] = bool(res.get("string") is True and res.get("file") is True and res.get("object") is True
                             and res.get("reparse_string") is True and res.get("nested") is True)
    res["argv_equal"] = bool(res.get("argv") is True and res.get("reparse") is True)
    res["json_equal"] = bool(res.get("json") is True)
    return res


def run_builtin(case):
    import pathlib
    import uuid

    t = case["type"]
    if t == "complex":
        T, v = complex, complex(float(case["re"]), float(case["im"]))
        eq = lambda a, b: type(a) is type(b) and repr(a) == repr(b)  # noqa: E731  (keeps -0.0 and 0.0 apart)
    elif t == "uuid":
        T, v, eq = uuid.UUID, uuid.UUID(int=int(case["int"])), None
    elif t == "bytes":
        T, v, eq = bytes, bytes.fromhex(case["hex"]), None
    elif t == "bytearray":
        T, v, eq = bytearray, bytearray.fromhex(case["hex"]), None
    elif t == "path":
        T, v, eq = pathlib.Path, pathlib.Path(case["path"]), None
    elif t == "posixpath":
        T, v, eq = pathlib.PosixPath, pathlib.PosixPath(case["path"]), None
    else:
        raise SystemExit("unknown builtin " + t)
    res, _ = channels(T, v, eq)
    res["all_equal"] = all(res.get(k) is True for k in ("string", "argv", "file", "json", "object", "reparse", "reparse_string", "nested"))
    return res


RE_FLAGS = {"I": "IGNORECASE", "M": "MULTILINE", "S": "DOTALL", "X": "VERBOSE"}


def _compile(regex, flags):
    import re

    bits = 0
    for f in flags:
        bits |= getattr(re, RE_FLAGS[f])
    return re.compile(regex, bits)


def run_rstr(case):
    import re

    flags = case.get("flags", "")
    key = ("rstr", case["regex"], flags)
    if key not in _types:
        from jsonargparse.typing import registered_types

        # a type already registered for this pattern text (the predefined NotEmptyStr / Email): whatever else the
        # register key holds, its first component is "matching <text>" and its last is str
        known = [t for k, t in registered_types.items()
                 if isinstance(k, tuple) and k and k[0] == "matching " + case["regex"] and k[-1] is str]
        if known and "predefined" in case:
            _types[key] = known[0]
        else:
            regex = case["regex"]
            if flags or case.get("compiled"):  # handed over as a compiled Pattern (Union[str, Pattern]) with its flags
                regex = _compile(regex, flags)
            name = known[0].__name__ if known and not flags else "C20S%d" % len(_types)
            _types[key] = restricted_string_type(name, regex)
    T = _types[key]
    v = dec_pv(case["value"])
    try:
        r = T(v)
    except Exception as e:
        return {"acc": None, "exc": type(e).__name__}
    ok = type(r) is T and str(r) == v
    try:
        r2 = T(r)
        ok = ok and type(r2) is T and str(r2) == str(r)
    except Exception:
        ok = False
    return {"acc": str(r), "extras_ok": bool(ok)}


_hist = {}


def run_rstrhist(case):
    """A registry history: one pattern text, first registered as type A with flags1, then handed to
    restricted_string_type again with flags2 under the same or another name; the type the second call
    returns (if any) is asked about the value."""
    key = (case["regex"], case["flags1"], case["flags2"], case["same_name"])
    if key not in _hist:
        n = len(_hist)
        restricted_string_type("C20H%dA" % n, _compile(case["regex"], case["flags1"]))
        try:
            _hist[key] = restricted_string_type("C20H%d%s" % (n, "A" if case["same_name"] else "B"),
                                                _compile(case["regex"], case["flags2"]))
        except ValueError:
            _hist[key] = None
    T = _hist[key]
    if T is None:
        return {"created": False, "acc": None}
    v = dec_pv(case["value"])
    try:
        r = T(v)
    except Exception as e:
        return {"created": True, "acc": None, "exc": type(e).__name__}
    return {"created": True, "acc": str(r)}


_nhist = {}


def run_numhist(case):
    """A registry history of restricted NUMBER types: restricted_number_type(nameA, t1) and then (name A again, or B)
    t2; the references of a history are its own, so neither key is in the registry before. What the second call
    hands back (if anything) is asked about the value."""
    key = json.dumps([case["hist"], case["t1"], case["t2"], case["same_name"]], sort_keys=True)
    if key not in _nhist:
        def mk(name, t):
            base = int if t["base"] == "int" else float
            restr = [(sym, dec_pv(ref)) for sym, ref in t["restr"]]
            return restricted_number_type(name, base, restr, join=t["join"]), base

        stem = "C20N%d%s" % (case["hist"], "s" if case["same_name"] else "o")
        try:
            mk(stem + "A", case["t1"])
        except ValueError:
            pass
        try:
            _nhist[key] = mk(stem + ("A" if case["same_name"] else "B"), case["t2"])
        except ValueError:
            _nhist[key] = None
    if _nhist[key] is None:
        return {"created": False, "acc": None}
    T, base = _nhist[key]
    try:
        r = T(dec_pv(case["value"]))
    except Exception as e:
        return {"created": True, "acc": None, "exc": type(e).__name__}
    return {"created": True, "acc": enc_pv(base(r))}


def _fn_name(f, T=None):
    import jsonargparse.typing as jt

    if f is None or (T is not None and f is T):
        return None  # register_type's default: the class itself
    for n in ("decimal_serializer", "decimal_deserializer", "timedelta_deserializer", "bytes_serializer", "bytes_deserializer",
              "bytearray_deserializer", "range_serializer", "range_deserializer"):
        if f is getattr(jt, n, None):
            return n
    if f is str:
        return "str"
    if f is float:
        return "float"
    return getattr(f, "__name__", "?")


def _builtin_type(name):
    import datetime
    import decimal
    import pathlib
    import uuid

    return {"complex": complex, "decimal.Decimal": decimal.Decimal, "uuid.UUID": uuid.UUID, "pathlib.Path": pathlib.Path,
            "pathlib.PosixPath": pathlib.PosixPath, "datetime.timedelta": datetime.timedelta, "builtins.bytes": bytes,
            "builtins.bytearray": bytearray, "range": range, "SecretStr": SecretStr}[name]


class _UserType:
    def __init__(self, v):
        self.v = v


def run_reghist(case):
    """One call of register_type on the table as imported (restored afterwards): the pair of a registered type
    again / another serializer / another deserializer, with the default flags, with fail_already_registered=False,
    with a uniqueness key; or a class nobody registered. Observed: ValueError or not, the pair in force afterwards."""
    import jsonargparse.typing as jt

    new = case["type"] == "user"
    T = type("C20User", (_UserType,), {}) if new else _builtin_type(case["type"])
    h0 = get_registered_type(T)
    before = dict(jt.registered_type_handlers)
    keys_before = dict(jt.registered_types)
    ser0, des0 = (str, None) if new else (h0.serializer, h0.base_deserializer)
    action = case["action"]
    ser, des, kw = ser0, des0, {}
    if action == "defaults":
        ser, des = str, None
    elif action == "other_ser":
        ser = repr
    elif action == "other_des":
        des = ascii
    elif action == "force":
        ser, des, kw = repr, ascii, {"fail_already_registered": False}
    elif action == "force_same":
        kw = {"fail_already_registered": False}
    elif action == "key":
        ser, des, kw = repr, ascii, {"uniqueness_key": ("c20 reghist", case["type"])}
    try:
        try:
            if des is None and ser is str and action == "defaults":
                jt.register_type(T, **kw)
            else:
                jt.register_type(T, ser, des, **kw)
            refused = False
        except ValueError:
            refused = True
        h1 = jt.registered_type_handlers.get(T)
        out = {"ser": _fn_name(ser), "des": _fn_name(des, T), "fail": kw.get("fail_already_registered", True),
               "key": "uniqueness_key" in kw, "refused": refused,
               "after": None if h1 is None else [_fn_name(h1.serializer), _fn_name(h1.base_deserializer, T)],
               "was": None if h0 is None else [_fn_name(h0.serializer), _fn_name(h0.base_deserializer, T)]}
    finally:
        jt.registered_type_handlers.clear()
        jt.registered_type_handlers.update(before)
        jt.registered_types.clear()
        jt.registered_types.update(keys_before)
    return out


RUN = {
    "numhist": run_numhist, "reghist": run_reghist,
    "num": run_num, "numparse": run_numparse, "range": run_range, "rangedes": run_rangedes, "td": run_td,
    "tddes": run_tddes, "secret": run_secret, "decimal": run_decimal, "builtin": run_builtin, "rstr": run_rstr, "rstrhist": run_rstrhist,
}

cases = json.load(sys.stdin)["cases"]
out = []
try:
    for c in cases:
        try:
            out.append(RUN[c["kind"]](c))
        except Exception as e:  # harness-level failure: reported, never hidden
            out.append({"harness_error": type(e).__name__ + ": " + str(e)[:300]})
finally:
    if scratch:
        shutil.rmtree(scratch, ignore_errors=True)
print(json.dumps(out))

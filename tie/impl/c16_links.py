"""Runs real parsers with apply_on='instantiate' links end to end (C16, link half).

stdin: {"cases": [ {"decls": [[name, shape], ...], "links": [{"src": [key, ...], "tgt": key, "id": j, "fn": bool}, ...]}, ...]}
For every case: build an ArgumentParser from the declarations (class groups / class-typed arguments whose classes live
in a scratch module written at start-up), add the links in the given order, parse a configuration that selects the
classes, run instantiate_classes, and report the global event log: one event per constructor call (unit, value received
by every link parameter) and per compute_fn call, in the order they happened.

Shapes (name n):  G   add_class_arguments(F, n)                      units: n
                  S   add_argument(--n, type=F)                      units: n
                  SN  add_argument(--n, type=N)   N(sub: F)          units: n.init_args.sub, n
                  SNN add_argument(--n, type=NN)  NN(sub: N)         units: n.init_args.sub.init_args.sub, n.init_args.sub, n
                  GN  add_class_arguments(P, n)   P(child: F)        units: n.child, n
                  GNN add_class_arguments(PP, n)  PP(child: N)       units: n.child.init_args.sub, n.child, n
                  GI  add_class_arguments(F, n, instantiate=False)   no unit: never constructed; its link parameters are only
                      filled by the final pass of instantiate_classes and are read back from the returned cfg
                      (event ["cfg", n, [[i, value], ...]] at the end of the log)
                  TI  add_argument(--n, type=Optional[Base])         no unit: a WHOLE class-typed argument that is a link target
                      (link(src, "n")); given no value, required when a link targets it and the parser is not used before;
                      the final pass type-checks the value and writes it to cfg[n] (event ["cfg", n, [[link id, value]]])
With "sub": true the parser of the case is a SUBCOMMAND of an outer parser: parse_object / instantiate_classes are called on
the outer parser and reach the links through the recursion of instantiate_classes into the chosen subcommand.
A case may carry "uses": [k, ...]: after the k-th link_arguments call (1-based count of calls made) the parser is USED
(parse_object + instantiate_classes, result discarded) before further links are added - link histories interleaved with use.
With "cont": true the ValueError of a cycle-closing link is caught and the remaining links are still added: the history goes
on after a rejection; the numbers of the rejected calls are reported as "rejected".
Every class has int parameters l0..l7 (default -1) that links may target, sets self.at to a fresh marker object and the
attributes an, az, ae, af to None, 0, "" and False (falsy attribute values are values like any other).
"""
import json
import os
import shutil
import sys
import tempfile

# component names; some are plain string prefixes of others (a/ab/abc, a/a_b) so that prefix-vs-segment mistakes in key matching show
NAMES = ["a", "b", "c", "d", "ab", "abc", "a_b", "ba"]
NPAR = 8

MODULE_HEAD = '''
from typing import Any, Optional
LOG = []
UNIT = {}      # class name -> unit key
class Base:    # every scratch class, marker and compute_fn result is a Base: what a whole class-typed target accepts
    pass
class Attr(Base):
    def __init__(self, unit):
        self.unit = unit
class FnRes(Base):
    def __init__(self, j, args):
        self.j, self.args = j, args
def canon(v):
    from jsonargparse import Namespace
    if isinstance(v, Attr):
        return ["attr", v.unit]
    if isinstance(v, FnRes):
        return ["fn", v.j, [canon(a) for a in v.args]]
    if isinstance(v, Namespace):
        return ["ns"]
    if v is None:
        return ["lit", 0]
    if v is False:
        return ["lit", 3]
    if isinstance(v, int) and not isinstance(v, bool) and v == 0:
        return ["lit", 1]
    if isinstance(v, str) and v == "":
        return ["lit", 2]
    if type(v).__name__ in UNIT:
        return ["obj", UNIT[type(v).__name__]]
    if v == -1 and isinstance(v, int):
        return ["unset"]
    return ["other", type(v).__name__]
def make_fn(j):
    def fn(*args):
        LOG.append(["call", j, [canon(a) for a in args]])
        return FnRes(j, args)
    fn.__name__ = "fn%d" % j
    return fn
'''

PARAMS_INT = ", ".join("l%d: int = -1" % i for i in range(NPAR))   # classes of class groups (no extra typehint actions)
PARAMS_ANY = ", ".join("l%d: Any = -1" % i for i in range(NPAR))   # classes reached through a class-typed argument
BODY = '''
class {cls}(Base):
    def __init__(self, {sub}{params}):
        LOG.append(["new", UNIT["{cls}"], [[i, canon(v)] for i, v in enumerate([{plist}])]])
        self.at = Attr(UNIT["{cls}"])
        self.an, self.az, self.ae, self.af = None, 0, "", False
UNIT["{cls}"] = "{unit}"
'''


def module_text():
    out = [MODULE_HEAD]
    plist = ", ".join("l%d" % i for i in range(NPAR))

    def cls(name, unit, sub=None):
        group_class = name[len(n) + 1:] in ("G", "GN", "GNN", "GI")
        out.append(BODY.format(cls=name, unit=unit, params=PARAMS_INT if group_class else PARAMS_ANY, plist=plist,
                               sub=("%s: %s, " % sub) if sub else ""))

    for n in NAMES:
        cls("%s_G" % n, n)
        cls("%s_S" % n, n)
        cls("%s_GI" % n, n)
        cls("%s_SN_sub" % n, "%s.init_args.sub" % n)
        cls("%s_SN" % n, n, ("sub", "%s_SN_sub" % n))
        cls("%s_SNN_sub_sub" % n, "%s.init_args.sub.init_args.sub" % n)
        cls("%s_SNN_sub" % n, "%s.init_args.sub" % n, ("sub", "%s_SNN_sub_sub" % n))
        cls("%s_SNN" % n, n, ("sub", "%s_SNN_sub" % n))
        cls("%s_GN_child" % n, "%s.child" % n)
        cls("%s_GN" % n, n, ("child", "%s_GN_child" % n))
        cls("%s_GNN_child_sub" % n, "%s.child.init_args.sub" % n)
        cls("%s_GNN_child" % n, "%s.child" % n, ("sub", "%s_GNN_child_sub" % n))
        cls("%s_GNN" % n, n, ("child", "%s_GNN_child" % n))
    return "".join(out)


def build_parser(mod, decls, required=()):
    from typing import Optional

    from jsonargparse import ArgumentParser

    p = ArgumentParser(exit_on_error=False)
    cfg = {}
    M = mod.__name__
    for n, shape in decls:
        c = getattr(mod, "%s_%s" % (n, shape), None)
        if shape == "GI":
            p.add_class_arguments(c, n, instantiate=False)
        elif shape == "TI":
            p.add_argument("--" + n, type=Optional[mod.Base], required=n in required)
        elif shape in ("G", "GN", "GNN"):
            p.add_class_arguments(c, n)
            if shape == "GN":
                cfg[n] = {"child": {"class_path": "%s.%s_GN_child" % (M, n)}}
            elif shape == "GNN":
                cfg[n] = {"child": {"class_path": "%s.%s_GNN_child" % (M, n),
                                    "init_args": {"sub": {"class_path": "%s.%s_GNN_child_sub" % (M, n)}}}}
        else:
            p.add_argument("--" + n, type=c)
            v = {"class_path": "%s.%s_%s" % (M, n, shape)}
            if shape == "SN":
                v["init_args"] = {"sub": {"class_path": "%s.%s_SN_sub" % (M, n)}}
            elif shape == "SNN":
                v["init_args"] = {"sub": {"class_path": "%s.%s_SNN_sub" % (M, n),
                                          "init_args": {"sub": {"class_path": "%s.%s_SNN_sub_sub" % (M, n)}}}}
            cfg[n] = v
    return p, cfg


def run_case(mod, case):
    mod.LOG.clear()
    try:
        # a whole-argument target is declared required when a link will take it off the required list before any use
        required = [] if case.get("uses") else [l["tgt"] for l in case["links"] if "." not in l["tgt"]]
        p, cfg = build_parser(mod, case["decls"], required)
        top = p
        if case.get("sub"):      # the parser of the case is the subcommand "run" of an outer parser
            from jsonargparse import ArgumentParser
            top = ArgumentParser(exit_on_error=False)
            top.add_subcommands().add_subcommand("run", p)
            cfg = {"subcommand": "run", "run": cfg}
    except BaseException as e:  # noqa
        return {"outcome": "build:" + type(e).__name__, "log": []}
    rejected = []
    for k, l in enumerate(case["links"]):
        src = l["src"][0] if len(l["src"]) == 1 else tuple(l["src"])
        fn = mod.make_fn(l["id"]) if l["fn"] else None
        try:
            p.link_arguments(src, l["tgt"], compute_fn=fn, apply_on="instantiate")
        except ValueError as e:
            kind = "cycle" if "Graph has cycles" in str(e) else "other"
            if not (kind == "cycle" and case.get("cont")):
                return {"outcome": "link_error", "at": k, "why": kind, "log": list(mod.LOG), "msg": str(e)[:160]}
            rejected.append(k)      # the caller catches the rejection and goes on (and may use the parser right away)
        except BaseException as e:  # noqa
            return {"outcome": "link_exc:" + type(e).__name__, "at": k, "log": list(mod.LOG), "msg": str(e)[:160]}
        if k + 1 in case.get("uses", ()):
            try:   # use the parser in between; whatever it does must not influence what follows
                top.instantiate_classes(top.parse_object(cfg))
            except BaseException:  # noqa
                pass
            mod.LOG.clear()
    try:
        ns = top.parse_object(cfg)
    except BaseException as e:  # noqa
        return {"outcome": "parse:" + type(e).__name__, "log": list(mod.LOG), "msg": str(e)[:200], "rejected": rejected}
    pre = len(mod.LOG)
    try:
        init = top.instantiate_classes(ns)
        if case.get("sub"):
            init = init["run"]
    except BaseException as e:  # noqa
        return {"outcome": "exc:" + type(e).__name__, "log": list(mod.LOG), "parse_events": pre, "msg": str(e)[:200],
                "rejected": rejected}
    log = list(mod.LOG)
    for n, shape in case["decls"]:
        if shape == "GI":
            try:
                g = init[n]
                log.append(["cfg", n, [[i, mod.canon(g["l%d" % i])] for i in range(NPAR)]])
            except BaseException as e:  # noqa
                log.append(["cfg", n, [[0, ["other", type(e).__name__]]]])
        elif shape == "TI":
            ids = [l["id"] for k, l in enumerate(case["links"]) if l["tgt"] == n and k not in rejected]
            try:
                log.append(["cfg", n, [[i, mod.canon(init[n])] for i in ids[:1]]])
            except BaseException as e:  # noqa
                log.append(["cfg", n, [[ids[0] if ids else 0, ["other", type(e).__name__]]]])
    return {"outcome": "ok", "log": log, "parse_events": pre, "rejected": rejected}


def main():
    cases = json.load(sys.stdin)["cases"]
    d = tempfile.mkdtemp(prefix="jv_c16_")
    try:
        modname = "jv_c16_mod_%d" % os.getpid()
        with open(os.path.join(d, modname + ".py"), "w") as f:
            f.write(module_text())
        sys.path.insert(0, d)
        mod = __import__(modname)
        out = [run_case(mod, c) for c in cases]
    finally:
        shutil.rmtree(d, ignore_errors=True)
    print(json.dumps(out))


if __name__ == "__main__":
    main()

"""A module the C09 runner does NOT import: a history reaches it only through a class_path (c09_extra.SubX), so the set
of known subclasses of Base grows in the middle of a history."""
from c09_classes import Base


class SubX(Base):
    def __init__(self, a: int = 3, x: int = 8):
        super().__init__(a)
        self.x = x

"""Runs the real ArgumentParser.save under fault injection, one scratch directory per case.

stdin : {"cases": [case, ...]}   (see tie/props/c18.py for the case format)
stdout: last line = JSON list of observations, one per case:
  res      ok | path (PathError) | refuse (ValueError "Refusing to overwrite") | fail (anything else)
  before / after   flat snapshot of the target directory: [[name, text-id] | [name, -1] for a directory]
  reparse  after a successful save: parse_path(saved) == strip_meta(cfg) (save_path_content keys compared by
           the content of the file they point to)
  valid, full, mainr, subs   the oracle the model needs, measured on the real validate / serialiser
           BEFORE save is called and before the call-counting fault is installed
  alias    the target path was given in a non-normal form (case["via"]: ./name, ../out/name, doubled slash,
           through a symbolic link); the other spellings (~/out/name with HOME = scratch root, file://<dir>/name,
           a Path_fc object with cwd=<dir> or created before an os.chdir) resolve to the normal form
  kind     "fsspec" when the target is an fsspec URL naming the file (local://<dir>/name: save's fsspec branch), else "local"
  path_ok  the target's directory exists and the target is something Path accepts (not: null byte, a non-path object)
  texts    text-id -> text (id 0 is the empty text)
Faults are injected from this process only (values put into cfg, a patched jsonargparse._core.dump_using_format,
a removed source file); nothing in the implementation tree is touched.
"""
import json
import os
import shutil
import sys
import tempfile
from typing import Any, Dict, Optional

import yaml

import jsonargparse._core as core
from jsonargparse import ActionJsonnet, ActionParser, ArgumentParser, Namespace, strip_meta
from jsonargparse._common import parser_context
from jsonargparse._loaders_dumpers import dump_using_format
from jsonargparse._util import PathError
from jsonargparse.typing import Path_fc, Path_fr


class Unserialisable:
    """No YAML representer, not JSON serialisable."""


class InjectedFault(Exception):
    pass


def build_parser(items):
    p = ArgumentParser(exit_on_error=False)
    for it in items:
        kind, flag = it["kind"], "--" + it["name"]
        if kind == "int":
            p.add_argument(flag, type=int, default=0)
        elif kind == "any":
            p.add_argument(flag, type=Any, default=None)
        elif kind == "parser":
            p.add_argument(flag, action=ActionParser(parser=build_parser(it["items"])))
        elif kind == "dict":
            p.add_argument(flag, type=Optional[Dict[str, int]], default=None, enable_path=True)
        elif kind == "jsonnet":
            p.add_argument(flag, action=ActionJsonnet(ext_vars=None), default=None)
        elif kind == "pathc":
            p.add_argument(flag, type=Optional[Path_fr], default=None)
        else:
            raise SystemExit("unknown kind %r" % kind)
    return p


def set_dotted(m, name, v):
    parts = name.split(".")
    for k in parts[:-1]:
        m = m.setdefault(k, {})
    m[parts[-1]] = v


def write_inputs(items, base, here):
    """Content (a dict) of the config whose file lives in base/here; writes the files it refers to."""
    m = {}
    for it in items:
        kind = it["kind"]
        if kind in ("int", "any"):
            v = it.get("val")
        else:
            f = it.get("file")
            if kind == "parser":
                inner = write_inputs(it["items"], base, it["dir"] if f else here)
                body = yaml.safe_dump(inner, sort_keys=False)
            elif kind == "dict":
                inner = it["val"]
                body = yaml.safe_dump(inner, sort_keys=False)
            else:
                inner = None
                body = it["val"]
            if f:
                d = os.path.join(base, it["dir"])
                os.makedirs(d, exist_ok=True)
                with open(os.path.join(d, f), "w") as fh:
                    fh.write(body)
                if kind == "pathc":
                    # absolute, so that a single-file save elsewhere still points at the file (relative path
                    # values saved into another directory are C19's subject, not C18's)
                    v = os.path.join(d, f)
                else:
                    v = os.path.relpath(os.path.join(d, f), os.path.join(base, here))
            else:
                v = inner
        set_dotted(m, it["name"], v)
    return m


def collect_subs(items, prefix, out):
    """Sub-files in declaration (depth-first) order."""
    for it in items:
        key = prefix + it["name"]
        if it["kind"] in ("parser", "dict", "jsonnet", "pathc") and it.get("file"):
            out.append({"key": key, "it": it})
        if it["kind"] == "parser":
            collect_subs(it["items"], key + ".", out)
    return out


def snapshot(d, intern):
    res = []
    for n in sorted(os.listdir(d)):
        p = os.path.join(d, n)
        if os.path.isdir(p):
            res.append([n, -1])
        else:
            with open(p, newline="") as fh:
                res.append([n, intern(fh.read())])
    return res


def run_case(case):
    root = os.path.realpath(tempfile.mkdtemp(prefix="jv_c18_"))  # "plain" targets must be in normal form
    cwd0 = os.getcwd()
    home0 = os.environ.get("HOME")
    texts = [""]
    index = {"": 0}

    def intern(t):
        if t not in index:
            index[t] = len(texts)
            texts.append(t)
        return index[t]

    try:
        outd = os.path.join(root, "out")
        os.mkdir(outd)
        base = outd if case["layout"] == "same" else os.path.join(root, "in")
        os.makedirs(base, exist_ok=True)
        decl = case["decl"]
        main_in = os.path.join(base, case["input_main"])
        top = write_inputs(decl, base, "")
        with open(main_in, "w") as fh:
            fh.write(yaml.safe_dump(top, sort_keys=False))
        for e in case["pre"]:
            p = os.path.join(outd, e[0])
            if e[1] == "dir":
                os.makedirs(p, exist_ok=True)
            else:
                with open(p, "w") as fh:
                    fh.write(e[2])

        parser = build_parser(decl)
        subs = collect_subs(decl, "", [])
        for s in subs:
            if s["it"]["kind"] == "pathc":
                parser.save_path_content.add(s["key"])
        cfg = parser.parse_path(main_in, with_meta=True)

        # ---- faults carried by values / by the environment
        failcall = None
        missing = set()
        for f in case["faults"]:
            if f[0] == "invalid":
                v = cfg[f[1]]
                if isinstance(v, dict):
                    v[next(k for k in v if not k.startswith("__"))] = "bad"
                else:
                    cfg[f[1]] = "bad"
            elif f[0] == "unser":
                cfg[f[1]] = Unserialisable()
            elif f[0] == "failcall":
                failcall = f[1]
            elif f[0] == "missing_src":
                os.remove(cfg[f[1]].absolute)
                missing.add(f[1])

        # ---- oracle: what validate and the serialiser answer (measured, not modelled)
        fmt = case["fmt"]
        try:
            with parser_context(load_value_mode=parser.parser_mode):
                parser.validate(strip_meta(cfg.clone()))
            valid = True
        except TypeError:
            valid = False

        def attempt(fn):
            try:
                return intern(fn())
            except Exception:  # noqa: any failure of the serialiser is "Fail" for the model
                return None

        full = attempt(lambda: parser.dump(cfg.clone(), format=fmt, skip_none=True, skip_validation=True))
        keys = [s["key"] for s in subs]

        def nearest_below(key):
            below = [k for k in keys if k.startswith(key + ".")]
            return [k for k in below if not any(k.startswith(o + ".") for o in below if o != k)]

        sub_out = []
        for s in subs:
            it, key = s["it"], s["key"]
            name = os.path.basename(it["file"])
            if it["kind"] in ("parser", "dict"):

                def render(key=key, it=it, name=name):
                    v = strip_meta(cfg[key])
                    if isinstance(v, Namespace):
                        v = v.clone()
                        for k in nearest_below(key):
                            v[k[len(key) + 1 :]] = os.path.basename(next(x for x in subs if x["key"] == k)["it"]["file"])
                        v = v.as_dict()
                    with parser_context(parent_parser=parser):
                        return dump_using_format(parser, v, "json_indented" if name.lower().endswith(".json") else fmt)

                src = ["dump", attempt(render)]
            elif it["kind"] == "jsonnet":
                src = ["orig", intern(it["val"])]
            elif case["layout"] == "same":
                src = ["here"]
            else:
                src = ["ext", None if key in missing else intern(it["val"])]
            sub_out.append({"key": key, "depth": key.count(".") + 1, "branch": it["kind"] == "parser", "name": name, "src": src})

        def render_main():
            c = cfg.clone()
            tops = [k for k in keys if not any(k.startswith(o + ".") for o in keys if o != k)]
            for k in tops:
                c[k] = os.path.basename(next(x for x in subs if x["key"] == k)["it"]["file"])
            return parser.dump(c, format=fmt, skip_none=True, skip_validation=True)

        mainr = attempt(render_main)

        # ---- the call under test
        # the form in which the target path is given: "plain" = <dir>/<name> as the OS reports the directory,
        # "dot" = ./<name> from inside the directory, "dotdot" = ../out/<name>, "slash" = doubled slash,
        # "link" = through a symbolic link to the directory
        via = case.get("via", "plain")
        if not case["dir_ok"]:
            target = ("local://" if via == "fsspec" else "") + os.path.join(outd, "no_such_dir", case["main"])
        elif via == "plain":
            target = os.path.join(outd, case["main"])
        elif via == "dot":
            os.chdir(outd)
            target = "./" + case["main"]
        elif via == "dotdot":
            os.chdir(outd)
            target = "../out/" + case["main"]
        elif via == "slash":
            target = outd + "//" + case["main"]
        elif via == "link":
            os.symlink(outd, os.path.join(root, "lnk"))
            target = os.path.join(root, "lnk", case["main"])
        # spellings that the library's Path resolves but that are not themselves a path the OS would find from the
        # process working directory: the file meant is always <outd>/<main>
        elif via == "tilde":
            os.environ["HOME"] = root  # restored below
            target = "~/out/" + case["main"]
        elif via == "fileurl":
            target = "file://" + os.path.join(outd, case["main"])
        elif via == "pathobj":  # what a Path_fc option parsed from a config file in another directory looks like
            target = lambda: Path_fc(case["main"], cwd=outd)  # noqa: E731  (built inside the observed call: may raise PathError)
        elif via == "chdir":  # a Path created while the process was in the target directory, used after leaving it

            def target():
                os.chdir(outd)
                try:
                    return Path_fc(case["main"])
                finally:
                    os.chdir(cwd0)
        # an fsspec URL that names the local file: save takes its fsspec branch (Path(path, mode="sw").is_fsspec)
        elif via == "fsspec":
            target = "local://" + os.path.join(outd, case["main"])
        # targets that no Path accepts: a null byte in the name, an object that is no path at all
        elif via == "nul":
            target = os.path.join(outd, "ma\0in" + case["main"])
        elif via == "badtype":
            target = 12345
        # "-": by Path's convention standard output, but save() opens <cwd>/- like any other file
        elif via == "dash":
            os.chdir(outd)
            target = "-"
        else:
            raise SystemExit("unknown via %r" % via)
        before = snapshot(outd, intern)
        calls = [0]
        real = core.dump_using_format

        def counting(*a, **k):
            n = calls[0]
            if failcall is not None and n == failcall:
                raise InjectedFault("injected failure of dump_using_format call %d" % n)
            r = real(*a, **k)
            calls[0] += 1
            return r

        core.dump_using_format = counting
        exc = None
        try:
            parser.save(
                cfg,
                target() if callable(target) else target,
                format=fmt,
                skip_validation=case["skipval"],
                overwrite=case["overwrite"],
                multifile=case["multifile"],
            )
            res = "ok"
        except PathError as e:
            res, exc = "path", type(e).__name__
        except ValueError as e:
            res, exc = ("refuse" if "Refusing to overwrite" in str(e) else "fail"), type(e).__name__
        except Exception as e:  # noqa
            res, exc = "fail", type(e).__name__
        finally:
            core.dump_using_format = real
            os.chdir(cwd0)
        after = snapshot(outd, intern)

        reparse = None
        if res == "ok":
            try:
                cfg2 = parser.parse_path(os.path.join(outd, case["main"]), with_meta=False).clone()
                want = strip_meta(cfg).clone()
                for s in subs:
                    if s["it"]["kind"] == "pathc":
                        want[s["key"]] = "content:" + s["it"]["val"]
                        try:
                            cfg2[s["key"]] = "content:" + cfg2[s["key"]].get_content()
                        except Exception as e:  # noqa
                            cfg2[s["key"]] = "unreadable:" + type(e).__name__
                reparse = cfg2 == want
            except BaseException as e:  # noqa: SystemExit / ArgumentError alike mean "cannot be parsed back"
                reparse = False
                exc = "reparse:" + type(e).__name__
        return {"res": res, "exc": exc, "before": before, "after": after, "reparse": reparse, "valid": valid,
                "full": full, "mainr": mainr, "subs": sub_out, "texts": texts, "calls": calls[0],
                "alias": bool(case["dir_ok"] and via in ("dot", "dotdot", "slash", "link")),
                "kind": "fsspec" if via == "fsspec" else "local",
                "path_ok": bool(case["dir_ok"] and via not in ("nul", "badtype"))}
    finally:
        os.chdir(cwd0)
        if home0 is None:
            os.environ.pop("HOME", None)
        else:
            os.environ["HOME"] = home0
        shutil.rmtree(root, ignore_errors=True)


def main():
    cases = json.load(sys.stdin)["cases"]
    out = [run_case(c) for c in cases]
    print(json.dumps(out))


if __name__ == "__main__":
    main()

"""C19 runner, mode half: builds a fixture of path kinds, and for every case calls the real
jsonargparse Path(given, mode=...) in a child process (optionally after dropping to uid nobody, since root
bypasses the permission bits), next to an independent os.stat/os.access probe of the same path.

stdin : {"cases": [{"mode":..., "kind":..., "spell": "abs"|"rel"|"dotrel", "cwd": "w"|"wd"|"ro", "uid": "root"|"nobody",
                    "via": "path"|"type"}]}   (via type: path_type(mode)(given) instead of Path(given, mode=mode))
stdout: one JSON list, per case {"given","cwd","home","facts",{...},"obs":{...}} with the fixture root written as /B.
"""
import json
import os
import shutil
import stat
import sys
import tempfile

NOBODY = 65534

# kind -> path below the fixture root (or an absolute/special spelling)
KINDS = {
    "file": "w/file", "file_rw": "w/file_rw", "file_x": "w/file_x", "file_none": "w/file_none",
    "file_wo": "w/file_wo", "file_xo": "w/file_xo",
    "dir": "w/dir", "dir_rwx": "w/dir_rwx", "dir_none": "w/dir_none", "dir_wx": "w/dir_wx", "dir_r": "w/dir_r",
    "fifo": "w/fifo", "fifo_ro": "w/fifo_ro",
    "link_file": "w/link_file", "link_dir": "w/link_dir", "link_fifo": "w/link_fifo", "dangling": "w/dangling",
    "link_ro": "w/link_ro",
    "missing": "w/missing", "missing_noparent": "w/nodir/missing", "missing_deep": "w/nodir/a/b/missing",
    "through_file": "w/file/sub", "through_file_deep": "w/file/sub/deeper", "through_fifo": "w/fifo/sub",
    "in_ro": "ro/file", "missing_in_ro": "ro/missing", "missing_deep_ro": "ro/nodir/x/missing",
    "in_dir_none": "w/dir_none/inner", "missing_in_dir_none": "w/dir_none/nofile",
    "missing_below_dir_none": "w/dir_none/sub/nofile",
    "dir_slash": "w/dir/", "file_slash": "w/file/", "via_dotdot": "w/dir/../file", "missing_slash": "w/missing/",
    # a NUL character in the spelling: no file system names such a path (os.stat / os.access raise ValueError)
    # a parent that is writeable but not searchable (0o222) and one that is searchable but not writeable (0o111)
    "missing_in_dir_wo": "w/dir_wo/nofile", "missing_in_dir_xo": "w/dir_xo/nofile",
    "nul": "w/fi\0le", "nul_dir": "w/dir\0/inside",
}
SPECIAL = {  # spelled as is, whatever "spell" says
    "devnull": "/dev/null", "root": "/", "home": "~", "home_slash": "~/", "home_file": "~/hfile",
    "home_missing": "~/nope", "home_deep": "~/no/such/file", "dot": ".", "dotdot": "..", "empty": "", "dash": "-",
}
CWDS = {"w": "w", "wd": "w/dir_rwx", "ro": "ro"}


def build_fixture():
    base = tempfile.mkdtemp(prefix="jv_c19m_")
    os.chmod(base, 0o755)
    j = lambda p: os.path.join(base, p)
    for d in ("home", "w", "ro", "w/dir", "w/dir_rwx", "w/dir_none", "w/dir_wx", "w/dir_r", "w/dir_wo", "w/dir_xo"):
        os.mkdir(j(d))

    def mkfile(p, mode):
        with open(j(p), "w") as f:
            f.write("x\n")
        os.chmod(j(p), mode)

    mkfile("home/hfile", 0o644)
    mkfile("w/file", 0o644)
    mkfile("w/file_rw", 0o666)
    mkfile("w/file_x", 0o755)
    mkfile("w/file_none", 0o000)
    mkfile("w/file_wo", 0o222)
    mkfile("w/file_xo", 0o111)
    mkfile("w/dir/inside", 0o644)
    mkfile("w/dir_none/inner", 0o666)
    mkfile("ro/file", 0o644)
    os.mkfifo(j("w/fifo"))
    os.chmod(j("w/fifo"), 0o666)
    os.mkfifo(j("w/fifo_ro"))
    os.chmod(j("w/fifo_ro"), 0o444)
    os.symlink("file", j("w/link_file"))
    os.symlink("dir", j("w/link_dir"))
    os.symlink("fifo", j("w/link_fifo"))
    os.symlink("nowhere", j("w/dangling"))
    os.symlink("../ro/file", j("w/link_ro"))
    os.chmod(j("home"), 0o755)
    os.chmod(j("w"), 0o777)
    os.chmod(j("w/dir"), 0o755)
    os.chmod(j("w/dir_rwx"), 0o777)
    os.chmod(j("w/dir_none"), 0o000)
    os.chmod(j("w/dir_wx"), 0o333)
    os.chmod(j("w/dir_r"), 0o444)
    os.chmod(j("w/dir_wo"), 0o222)
    os.chmod(j("w/dir_xo"), 0o111)
    os.chmod(j("ro"), 0o555)
    return base


def remove_fixture(base):
    for d, ds, _ in os.walk(base):
        for x in ds:
            try:
                os.chmod(os.path.join(d, x), 0o700)
            except OSError:
                pass
    # directories that were unreadable during the first walk
    for _ in range(3):
        for d, ds, _ in os.walk(base):
            for x in ds:
                try:
                    os.chmod(os.path.join(d, x), 0o700)
                except OSError:
                    pass
    shutil.rmtree(base, ignore_errors=True)


def spelled(base, case):
    cwd = os.path.join(base, CWDS[case["cwd"]])
    k = case["kind"]
    if k in SPECIAL:
        return cwd, SPECIAL[k]
    rel = KINDS[k]
    target = os.path.join(base, rel)
    if case["spell"] == "abs":
        return cwd, target
    r = os.path.relpath(target, cwd)
    if rel.endswith("/"):
        r += "/"
    if "/../" in rel:  # keep the spelled detour
        r = os.path.relpath(os.path.join(base, rel.split("/../")[0]), cwd) + "/../" + rel.split("/../")[1]
    if case["spell"] == "dotrel":
        r = "./" + r
    return cwd, r


def probe(abs_path):
    """What the operating system says about abs_path — written independently of Path.__init__."""
    if "\0" in abs_path:  # not a path: the questions below cannot even be asked (ValueError: embedded null byte)
        return {"exists": False, "kind": "reg", "r": False, "w": False, "x": False,
                "par_dir": False, "anc_dir": False, "dir_w": False}
    try:
        st = os.stat(abs_path)
        ex = True
    except OSError:
        st, ex = None, False
    if not ex:
        kind = "reg"
    elif stat.S_ISREG(st.st_mode):
        kind = "reg"
    elif stat.S_ISDIR(st.st_mode):
        kind = "dir"
    elif stat.S_ISFIFO(st.st_mode):
        kind = "fifo"
    else:
        kind = "other"
    parent = os.path.dirname(os.path.realpath(abs_path))
    a = parent
    while not os.path.lexists(a) and a != os.path.dirname(a):
        a = os.path.dirname(a)
    b = parent
    while not os.path.isdir(b) and b != os.path.dirname(b):
        b = os.path.dirname(b)
    return {
        "exists": ex, "kind": kind,
        "r": os.access(abs_path, os.R_OK), "w": os.access(abs_path, os.W_OK), "x": os.access(abs_path, os.X_OK),
        "par_dir": os.path.isdir(parent), "anc_dir": os.path.isdir(a), "dir_w": os.access(b, os.W_OK),
    }


def run_cases(base, cases):
    from jsonargparse import Path
    from jsonargparse._util import PathError
    from jsonargparse.typing import path_type

    home = os.path.join(base, "home")
    os.environ["HOME"] = home

    def canon(s):
        return "/B" + s[len(base):] if s.startswith(base) else s

    out = []
    for case in cases:
        cwd, given = spelled(base, case)
        os.chdir(cwd)
        expanded = os.path.expanduser(given)
        abs_path = expanded if os.path.isabs(expanded) else os.path.join(cwd, expanded)
        facts = probe(abs_path)
        mode = case["mode"]
        if "mode_obj" in case:  # a mode that is not a str
            mode = {"none": None, "int": 5, "list": ["f", "r"], "tuple": ("d",), "bytes": b"fr", "set": {"f"},
                    "dict": {"f": 1}}[case["mode_obj"]]
        try:
            via = case.get("via")
            if via == "type":  # through the registered path type (typing.py: path_type, Path_fr, ...)
                p = path_type(mode)(given)
            elif via in ("repath", "retype"):
                # a Path made from a Path: the inner one (no flags, nothing checked) is made HERE, the outer one — which
                # carries the mode under test — after the process has moved elsewhere: spelling, cwd and absolute
                # location are those of the inner path, the mode is checked against that location
                inner = Path(given, mode="")
                os.chdir(os.path.join(base, "home"))
                try:
                    p = path_type(mode)(inner) if via == "retype" else Path(inner, mode=mode)
                finally:
                    os.chdir(cwd)
            else:
                p = Path(given, mode=mode)
            obs = {"ok": [canon(p.relative), canon(p.absolute), canon(p.cwd) if isinstance(p.cwd, str) else "<%s>" % type(p.cwd).__name__]}
        except PathError:
            obs = {"err": "path"}
        except ValueError:
            obs = {"err": "value"}
        except OSError as e:
            obs = {"err": "os", "name": type(e).__name__}
        except BaseException as e:  # noqa
            obs = {"err": "other", "name": type(e).__name__}
        after = os.getcwd()
        if after != cwd:
            obs = {"err": "other", "name": "cwd changed"}
        out.append({"given": canon(given), "cwd": canon(cwd), "home": canon(home), "facts": facts, "obs": obs})
    return out


def in_child(base, cases, drop):
    r, w = os.pipe()
    pid = os.fork()
    if pid == 0:
        os.close(r)
        code = 0
        try:
            # import (and warm up) before dropping privileges: the interpreter's library need not be
            # readable for nobody
            from jsonargparse import Path

            try:
                Path(base, mode="dFrwxcc")
                Path(os.path.join(base, "nope", "nope"), mode="F")
            except BaseException:  # noqa
                pass
            if drop:
                # bin/anchor-cov: the line recorder of this child dumps at exit, then as uid nobody
                if os.environ.get("VERIF_LINECOV_DIR") and os.path.isdir(os.environ["VERIF_LINECOV_DIR"]):
                    os.chmod(os.environ["VERIF_LINECOV_DIR"], 0o1777)
                os.setgroups([])
                os.setgid(NOBODY)
                os.setuid(NOBODY)
            res = run_cases(base, cases)
            with os.fdopen(w, "w") as f:
                json.dump(res, f)
        except BaseException as e:  # noqa
            sys.stderr.write("child failed: %r\n" % (e,))
            code = 3
        os._exit(code)
    os.close(w)
    with os.fdopen(r) as f:
        data = f.read()
    _, status = os.waitpid(pid, 0)
    if status != 0:
        raise SystemExit("c19_modes child exited with status %d" % status)
    return json.loads(data)


def main():
    cases = json.load(sys.stdin)["cases"]
    base = build_fixture()
    try:
        out = [None] * len(cases)
        for uid in ("root", "nobody"):
            idx = [i for i, c in enumerate(cases) if c["uid"] == uid]
            if not idx:
                continue
            if uid == "nobody" and os.getuid() != 0:
                for i in idx:
                    out[i] = {"unexplored": "cannot drop privileges"}
                continue
            res = in_child(base, [cases[i] for i in idx], drop=(uid == "nobody"))
            for i, r in zip(idx, res):
                out[i] = r
    finally:
        remove_fixture(base)
    print(json.dumps(out))


if __name__ == "__main__":
    main()

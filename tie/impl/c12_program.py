"""C12: source text of a generated program (shared by the runner and by describe())."""


def ty_src(t):
    if isinstance(t, list):
        return "Optional[%s]" % ty_src(t[1])
    return {"int": "int", "str": "str", "bool": "bool", "list": "List[int]", "data": "Point"}[t]


def val_src(v):
    if isinstance(v, dict):
        return "Point(x=%r, y=%r)" % (v["x"], v["y"])
    return repr(v)


def sig_src(sig, method):
    # method: False / None = no receiver (function, staticmethod); True = "self"; a string = that receiver name
    parts = [method if isinstance(method, str) else "self"] if method else []
    star = False
    npo = sum(1 for p in sig if p["kind"] == "po")
    for i, p in enumerate(sig):
        if i == npo and npo:
            parts.append("/")          # the parameters before it are positional-only
        if p["kind"] == "ko" and not star:
            parts.append("*")
            star = True
        s = "%s: %s" % (p["n"], ty_src(p["ty"]))
        if p["d"] is not None:
            s += " = %s" % val_src(p["d"]["v"])
        parts.append(s)
    if npo and npo == len(sig):
        parts.append("/")
    return ", ".join(parts)


def body_src(qual, sig, ret=True):
    rec = "_rec(%r, [%s])" % (qual, ", ".join("[%r, %s]" % (p["n"], p["n"]) for p in sig))
    return ("return " if ret else "") + rec


def comp_src(c, out, expr_of):
    """Emit definitions for every function/class of the tree; expr_of[id(c)] = python expression naming it."""
    if c["k"] == "fn":
        # a coroutine function is run by auto_cli through asyncio.run: same signature, same record
        out.append("%sdef %s(%s):\n    %s\n" % ("async " if c.get("async") else "", c["name"], sig_src(c["sig"], False), body_src(c["name"], c["sig"])))
    elif c["k"] == "cls":
        out.append("class %s:\n    def __init__(%s):\n        %s\n" % (
            c["name"], sig_src(c["init"], True), body_src(c["name"] + ".__init__", c["init"], ret=False)))
        for m, s in c["meths"]:
            # kind of the method: instance (default), static or class method; the callee's record names a wrong receiver
            kind = c.get("mkinds", {}).get(m, "inst")
            qual = c["name"] + "." + m
            rec = "[%s]" % ", ".join("[%r, %s]" % (p["n"], p["n"]) for p in s)
            if kind == "static":
                out.append("    @staticmethod\n    def %s(%s):\n        return _rec(%r, %s)\n" % (m, sig_src(s, False), qual, rec))
            elif kind == "class":
                out.append("    @classmethod\n    def %s(%s):\n        return _rec(%r if cls is %s else %r, %s)\n" % (
                    m, sig_src(s, "cls"), qual, c["name"], qual + ".BADRECEIVER", rec))
            else:
                # "prop": a property is a subcommand without parameters whose value is what auto_cli returns;
                # "async": a coroutine method
                deco = "    @property\n" if kind == "prop" else ""
                out.append("%s    %sdef %s(%s):\n        return _rec(%r if type(self) is %s else %r, %s)\n" % (
                    deco, "async " if kind == "async" else "", m, sig_src(s, True), qual, c["name"], qual + ".BADRECEIVER", rec))
    elif c["k"] == "grp":
        for _, kid in c["kids"]:
            comp_src(kid, out, expr_of)


def comp_expr(c):
    if c["k"] in ("fn", "cls"):
        return c["name"]
    if c["k"] == "help":
        return repr("some help")
    return "{" + ", ".join("%r: %s" % (k, comp_expr(kid)) for k, kid in c["kids"]) + "}"


HELPERS = ["from dataclasses import dataclass\nfrom typing import List, Optional\n", "LOG = []\n",
           "@dataclass\nclass Point:\n    x: int = 0\n    y: int = 0\n",
           "def _canon(v):\n"
           "    if type(v) is Point:\n        return {'x': v.x, 'y': v.y}\n"
           "    if v is None or type(v) in (int, str, bool) or (type(v) is list and all(type(i) is int for i in v)):\n        return v\n"
           "    return {'__other__': type(v).__name__}\n",
           "def _rec(name, args):\n    LOG.append([name, [[k, _canon(v)] for k, v in args]])\n    return ['R', len(LOG) - 1]\n"]


def helper_src():
    """The module `jvhelp`: the helpers of a program whose components are given IMPLICITLY (auto_cli() without
    `components` takes every function / class DEFINED in the calling module, so the helpers must live elsewhere)."""
    return "\n".join(HELPERS)


def program_src(comps):
    if comps.get("implicit"):
        # auto_cli(args=...) called from this module without `components`: the components are the functions and
        # classes defined here, in definition order; imported names (List, Optional, Point, _rec) are not components
        out = ["from typing import List, Optional\nfrom jvhelp import LOG, Point, _rec\n"]
        for c in comps["cs"]:
            comp_src(c, out, None)
        out.append("COMPONENTS = None   # auto_cli(args=argv) is called from this module\n")
        return "\n".join(out)
    out = list(HELPERS)
    if comps["form"] == "one":
        comp_src(comps["c"], out, None)
        expr = comp_expr(comps["c"])
    elif comps["form"] == "list":
        for c in comps["cs"]:
            comp_src(c, out, None)
        expr = "[" + ", ".join(comp_expr(c) for c in comps["cs"]) + "]"
    else:
        g = {"k": "grp", "kids": comps["kids"]}
        comp_src(g, out, None)
        expr = comp_expr(g)
    out.append("COMPONENTS = %s\n" % expr)
    return "\n".join(out)

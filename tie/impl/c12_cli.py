"""C12 runner: writes each generated program as a real Python module into a scratch directory, calls
jsonargparse.auto_cli(components, args=argv) on it and reports what the callees saw.

stdin : {"cases": [case, ...]}   (case format: see tie/props/c12.py)
stdout: last line = JSON list of observations
   {"ok": {"log": [[qualified name, [[param, value], ...]], ...], "ret": ["call", i] | ["instance"] | ["other", repr]}}
   {"err": "parse" | "build" | "crash", "detail": "..."}
"""
import contextlib
import importlib
import io
import json
import os
import shutil
import sys
import tempfile

SCRATCH = tempfile.mkdtemp(prefix="jv_c12_")
sys.path.insert(0, SCRATCH)

import jsonargparse  # noqa: E402
from jsonargparse import ArgumentParser  # noqa: E402

PHASE = {"parsing": False}


class RecordingParser(ArgumentParser):
    """Only records that parsing has started, so that a ValueError while the parser is being built
    (a refusal) can be told from an exception escaping later (a crash)."""

    def parse_args(self, *a, **k):
        PHASE["parsing"] = True
        return super().parse_args(*a, **k)


sys.path.insert(0, os.path.dirname(os.path.abspath(__file__)))
from c12_program import helper_src, program_src  # noqa: E402

with open(os.path.join(SCRATCH, "jvhelp.py"), "w") as _f:
    _f.write(helper_src())
import jvhelp  # noqa: E402


def raw_text(r):
    if r is None:
        return "null"
    if r is True:
        return "true"
    if r is False:
        return "false"
    if isinstance(r, (list, dict)):
        return json.dumps(r)
    return str(r)


def doc_obj(doc):
    return {k: (nd["leaf"] if "leaf" in nd else doc_obj(nd["sec"])) for k, nd in doc}


def argv_of(case, idx):
    argv = []
    ncfg = 0
    for t in case["toks"]:
        if t[0] == "opt" and isinstance(t[2], dict) and case.get("data_nested"):
            # a dataclass value field by field: --k.x=1 --k.y=2
            argv += ["--%s.%s=%s" % (t[1], f, raw_text(t[2][f])) for f in ("x", "y")]
        elif t[0] == "opt":
            if case.get("opt_two_tokens") and not raw_text(t[2]).startswith("-"):
                argv += ["--" + t[1], raw_text(t[2])]
            else:
                argv.append("--%s=%s" % (t[1], raw_text(t[2])))
        elif t[0] == "pos":
            argv.append(raw_text(t[1]))
        else:
            text = json.dumps(doc_obj(t[1]))
            if case.get("cfg_via") == "file":
                path = os.path.join(SCRATCH, "cfg_%d_%d.json" % (idx, ncfg))
                ncfg += 1
                with open(path, "w") as f:
                    f.write(text)
                argv.append("--config=" + path)
            else:
                argv.append("--config=" + text)
    return argv


def run_case(case, idx):
    # History: every program of this process is imported under ONE module name, so that classes and functions of
    # successive programs share module.qualname (a class factory / a redefined class / a second auto_cli call of a
    # long-running process); anything auto_cli remembers about an earlier component must not leak into the next call.
    name = "jvprog"
    path = os.path.join(SCRATCH, name + ".py")
    with open(path, "w") as f:
        f.write(program_src(case["components"]) + "\n# program %d\n" % idx)
    os.utime(path, (1000000000 + idx, 1000000000 + idx))   # distinct mtime: the import system and linecache must re-read
    importlib.invalidate_caches()
    sys.modules.pop(name, None)
    mod = importlib.import_module(name)
    argv = argv_of(case, idx)
    PHASE["parsing"] = False
    classes = tuple(v for v in vars(mod).values() if isinstance(v, type) and v.__name__ != "Point")
    err = io.StringIO()
    implicit = bool(case["components"].get("implicit"))
    del jvhelp.LOG[:]
    try:
        with contextlib.redirect_stderr(err), contextlib.redirect_stdout(io.StringIO()):
            if implicit:
                # auto_cli() without `components`, called by code that belongs to the program's module (compiled under
                # the module's file name, run in the module's globals): the components are what the module defines
                env = {"_jv_cli": jsonargparse.auto_cli, "_jv_kw": dict(args=argv, as_positional=case["as_pos"], parser_class=RecordingParser)}
                mod.__dict__.update(env)
                exec(compile("_jv_ret = _jv_cli(**_jv_kw)", mod.__file__, "exec"), mod.__dict__)
                ret = mod.__dict__["_jv_ret"]
            else:
                ret = jsonargparse.auto_cli(mod.COMPONENTS, args=argv, as_positional=case["as_pos"], parser_class=RecordingParser)
    except SystemExit as e:
        if e.code == 2:
            return {"err": "parse", "detail": (err.getvalue().strip().splitlines() or [""])[-1][:200], "argv": argv}
        return {"err": "crash", "detail": "SystemExit(%r)" % (e.code,), "argv": argv}
    except ValueError as e:
        kind = "crash" if PHASE["parsing"] else "build"
        return {"err": kind, "detail": "ValueError: %s" % str(e)[:200], "argv": argv}
    except BaseException as e:  # noqa
        return {"err": "crash", "detail": "%s: %s" % (type(e).__name__, str(e)[:200]), "argv": argv}
    finally:
        sys.modules.pop(name, None)
    if isinstance(ret, list) and len(ret) == 2 and ret[0] == "R" and isinstance(ret[1], int):
        r = ["call", ret[1]]
    elif classes and isinstance(ret, classes):
        r = ["instance"]
    else:
        r = ["other", repr(ret)[:80]]
    return {"ok": {"log": list(mod.LOG), "ret": r}, "argv": argv}


def main():
    cases = json.load(sys.stdin)["cases"]
    out = []
    try:
        for i, c in enumerate(cases):
            out.append(run_case(c, i))
    finally:
        shutil.rmtree(SCRATCH, ignore_errors=True)
    print(json.dumps(out))


main()

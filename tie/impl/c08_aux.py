"""C08 runner for the entry points that the heap model does not cover: parse_args on a list of argument strings with a
config-file action, default_config_files (get_defaults / format_help / parse_args), list-of-values files (enable_path)
and parse_env. Each call works on files whose directory is plain, reached through a SYMLINK, or given RELATIVE to the
working directory, and is made to succeed or to fail midway (a value in the file that the type rejects). Reports whether
the call returned, whether each observed global (cwd, argparse.Namespace, the parser ContextVars, current_path_dir,
sub_defaults, os.environ) is as before, and whether the argument object (argv list / environ dict) is unchanged.

stdin  {"cases": [{"kind":"aux","entry":str,"dir":"plain|symlink|rel|symrel","fail":bool}], "scratch": dir}
stdout last line: [{"ok":bool,"globals":[bool..],"args_same":bool,"exc":str}]
"""
import argparse
import collections
import dataclasses
import datetime
import enum
import io
import json
import os
import shutil
import sys
from typing import Callable, Dict, List, Literal, Mapping, Set, Tuple, Type, TypedDict, Union

from jsonargparse import ActionConfigFile, ArgumentParser, Namespace
from jsonargparse._common import load_value_mode, parser_context_vars
from jsonargparse._typehints import sub_defaults
from jsonargparse._util import current_path_dir

ORIG_ARGPARSE_NS = argparse.Namespace
CTX_ORDER = ["parent_parser", "lenient_check", "load_value_mode", "class_instantiators", "nested_links",
             "defaults_cache", "parser_capture"]


def read_globals():
    try:
        cwd = os.getcwd()
    except OSError:
        cwd = "<gone>"
    g = [cwd, argparse.Namespace]
    g += [parser_context_vars[n].get() for n in CTX_ORDER]
    g += [current_path_dir.get(), sub_defaults.get(), dict(os.environ)]
    return g


def same(a, b):
    try:
        return a is b or bool(a == b)
    except Exception:
        return False


def place(work, kind, name, text):
    """write `text` to a file called `name` in a directory of the requested flavour; returns the path to hand to the API"""
    real = os.path.join(work, "real")
    os.makedirs(real)
    with open(os.path.join(real, name), "w") as fh:
        fh.write(text)
    d = real
    if kind in ("symlink", "symrel"):
        d = os.path.join(work, "link")
        os.symlink(real, d)
    p = os.path.join(d, name)
    if kind in ("rel", "symrel"):
        p = os.path.relpath(p, os.getcwd())
    return p


def untyped(p):
    """arguments without a type: an optional, an optional positional, and two required positionals (whose help line
    gets no `(default: %(default)s)` template)"""
    p.add_argument("--u", default="declared")
    p.add_argument("maybe", nargs="?", help="optional positional")
    p.add_argument("source", help="where from")
    p.add_argument("targets", nargs="+", help="where to")


class ForeignNamespace(argparse.Namespace):
    """the Namespace class some other library has put into argparse"""


class Color(enum.Enum):
    RED = 1
    BLUE = 2


def deep(o):
    """deep snapshot of an argument: value, exact type and identity of every nested container, exact type of every leaf"""
    if isinstance(o, Namespace):
        return ("Namespace", id(o), [(k, deep(v)) for k, v in vars(o).items()])
    if isinstance(o, dict):
        return (type(o).__name__, id(o), [(k, deep(v)) for k, v in o.items()])
    if isinstance(o, (list, tuple)):
        return (type(o).__name__, id(o), [deep(v) for v in o])
    if isinstance(o, (set, frozenset)):
        return (type(o).__name__, id(o), sorted(repr(v) for v in o))
    return (type(o).__name__, repr(o))


class Scale:
    """a class whose instances are callable (Callable[[int], int] given as class_path/init_args); also used as class group"""
    def __init__(self, k: int = 2):
        self.k = k

    def __call__(self, x: int) -> int:
        return self.k * x


@dataclasses.dataclass
class Pt:
    x: int = 0
    ys: List[int] = dataclasses.field(default_factory=list)


class TD(TypedDict):
    x: int
    ys: List[int]


def ty_parser():
    p = ArgumentParser(exit_on_error=False)
    p.add_argument("--lit", type=Literal["a", "b", 3], default="a")
    p.add_argument("--un", type=Union[int, List[int]], default=0)
    p.add_argument("--en", type=Color, default=Color.RED)
    p.add_argument("--st", type=Set[int], default=None)
    p.add_argument("--di", type=Dict[int, List[int]], default=None)
    p.add_argument("--td", type=TD, default=None)
    p.add_argument("--ty", type=Type[Scale], default=None)
    p.add_argument("--cb", type=Callable[[int], int], default=None)
    p.add_argument("--dcs", type=List[Pt], default=None)
    p.add_argument("--dur", type=datetime.timedelta, default=None)
    p.add_argument("--seq", type=List[int], default=[1])
    p.add_argument("--dk", type=Dict[str, int], default=None)
    p.add_argument("--a", type=int, default=1)
    return p


def ty_values(parsed, fail):
    """raw (as a user writes them) or parsed-form values; every container is the caller's own object"""
    if parsed:
        return {"lit": 3, "un": [1, 2], "en": Color.BLUE, "st": {1, 2}, "di": {1: [1]}, "td": {"x": 1, "ys": [2]},
                "ty": Scale, "cb": Namespace(class_path="__main__.Scale", init_args=Namespace(k=4)),
                "dcs": [Namespace(x=1, ys=[2])], "dur": datetime.timedelta(hours=1), "seq": [1, 2], "dk": {"a": 1},
                "a": "x" if fail else 5}
    return {"lit": "b", "un": ["1", 2], "en": "BLUE", "st": ["1", 2], "di": {"1": ["1"]}, "td": {"x": "1", "ys": ["2"]},
            "ty": "__main__.Scale", "cb": {"class_path": "__main__.Scale", "init_args": {"k": "4"}},
            "dcs": [{"x": "1", "ys": ["2"]}], "dur": "1:00:00", "seq": ["1", 2], "dk": {"a": "1"},
            "a": "x" if fail else 5}


def od_parser():
    """typed lists inside mapping-typed arguments; the values handed over are dict SUBCLASS objects, which
    recreate_branches deliberately does not rebuild (OrderedDict) or rebuilds as what they are (defaultdict)"""
    p = ArgumentParser(exit_on_error=False)
    p.add_argument("--m", type=Dict[str, List[float]], default={})
    p.add_argument("--e", type=Mapping[str, List[Color]], default={})
    p.add_argument("--dd", type=Dict[str, List[int]], default={})
    p.add_argument("--t", type=Dict[str, Tuple[List[float], int]], default={})
    p.add_argument("--a", type=int, default=1)
    return p


def od_values(parsed, fail):
    e = [Color.RED, Color.BLUE] if parsed else ["RED", "BLUE"]
    dd = collections.defaultdict(list)
    dd["k"] = [1, 2] if parsed else ["1", 2]
    return {"m": collections.OrderedDict(a=[1, 2], b=[3]), "e": collections.OrderedDict(c=e), "dd": dd,
            "t": collections.OrderedDict(p=([1, 2], 3)), "a": "x" if fail else 5}


def links_parser():
    """parse-time links; one of them leaves its target's parent holding nothing else"""
    def decls(q):
        q.add_argument("--a", type=int, default=1)
        q.add_argument("--g.x", type=int, default=0)
        q.add_argument("--g.y", type=int)
        q.add_argument("--h.z", type=int)
        q.link_arguments("a", "g.y")
        q.link_arguments("g.x", "h.z")
    return decls


def mapping_pair(p):
    """two cooperating declarations: an argument whose declared default is a mapping, declared BEFORE an argument whose
    dest lies below it; the dicts are the caller's own objects (kept in p.c08_user for the snapshot)"""
    user = {"opts": {"mode": "fast"}, "lim": {"lo": 0}}
    p.add_argument("--opts", type=dict, default=user["opts"])
    p.add_argument("--opts.level", type=int, default=2)
    p.add_argument("--lim", type=Dict[str, int], default=user["lim"])
    p.add_argument("--lim.hi", type=int, default=9)
    p.c08_user = user


def declared(p, dests=None):
    """the declared defaults as the parser holds them: value, type and identity of action.default per action, plus what
    get_defaults() says once the default config files are taken away"""
    acts = [(a.dest, id(a.default), repr(a.default)) for a in p._actions if dests is None or id(a) in dests]
    acts.append(("<the caller's own default objects>", 0, repr(getattr(p, "c08_user", None))))
    saved = p.default_config_files
    p.default_config_files = []
    try:
        d = repr(p.get_defaults())
    except BaseException as e:  # noqa
        d = "exc:" + type(e).__name__
    finally:
        p.default_config_files = saved
    again = [(a.dest, id(a.default), repr(a.default)) for a in p._actions if dests is None or id(a) in dests]
    again.append(("<the caller's own default objects>", 0, repr(getattr(p, "c08_user", None))))
    if again != acts:
        d += " <declared defaults changed by this very get_defaults() call>"
    return acts, d


def run(case, base, idx):
    work = os.path.join(base, "a%d" % idx)
    os.makedirs(work)
    entry, kind, fail = case["entry"], case["dir"], case["fail"]
    # the file also sets the untyped arguments (no type => no %-template in their help line)
    bad = ("a: notanint\n" if fail else "a: 5\n") + "u: fromfile\nmaybe: fromfile\nsource: fromfile\ntargets: [t1, t2]\n"
    arg, snap, call = None, None, None
    if entry == "args_cfg":
        p = ArgumentParser(exit_on_error=False)
        p.add_argument("--cfg", action=ActionConfigFile)
        p.add_argument("--a", type=int, default=1)
        p.add_argument("--l", type=List[int], default=[1])
        untyped(p)
        mapping_pair(p)
        arg = ["--l", "[2, 3]", "--cfg", place(work, kind, "c.yaml", bad), "--a", "7"]
        call = lambda: p.parse_args(arg)
    elif entry in ("dflt_get_defaults", "dflt_help", "dflt_parse_args", "dflt_print_help"):
        f = place(work, kind, "d.yaml", bad)
        p = ArgumentParser(exit_on_error=False, default_config_files=[f])
        p.add_argument("--a", type=int, default=1)
        p.add_argument("--d", type=Dict[str, int], default={"k": 1})
        untyped(p)
        mapping_pair(p)
        arg = []
        call = {"dflt_get_defaults": p.get_defaults, "dflt_help": p.format_help, "dflt_parse_args": lambda: p.parse_args(arg),
                "dflt_print_help": lambda: p.print_help(io.StringIO())}[entry]
    elif entry == "list_file":
        p = ArgumentParser(exit_on_error=False)
        p.add_argument("--l", type=List[int], enable_path=True)
        arg = ["--l", place(work, kind, "l.txt", "1\nx\n3\n" if fail else "1\n2\n3\n")]
        call = lambda: p.parse_args(arg)
    elif entry == "parse_env":
        p = ArgumentParser(exit_on_error=False, env_prefix="APP", default_env=True)
        p.add_argument("--a", type=int, default=1)
        p.add_argument("--l", type=List[int], default=[1])
        mapping_pair(p)
        arg = {"APP_A": "x" if fail else "3", "APP_L": "[4, 5]"}
        call = lambda: p.parse_env(arg)
    elif entry in ("get_defaults", "parse_args", "parse_object", "parse_string", "dump_skip_default", "validate"):
        # no files involved: the calls that compute the defaults of a parser with a mapping default and a child below it
        p = ArgumentParser(exit_on_error=False)
        p.add_argument("--a", type=int, default=1)
        p.add_argument("--l", type=List[int], default=[1])
        mapping_pair(p)
        if entry == "get_defaults":
            arg = []
            call = p.get_defaults
        elif entry == "parse_args":
            arg = ["--a", "x" if fail else "3", "--opts.level", "4"]
            call = lambda: p.parse_args(arg)
        elif entry == "parse_object":
            arg = {"a": "x" if fail else "3", "l": ["4"]}
            call = lambda: p.parse_object(arg)
        elif entry == "parse_string":
            arg = ["a: x\n" if fail else "a: 3\nlim:\n  hi: 5\n"]
            call = lambda: p.parse_string(arg[0])
        else:
            arg = Namespace(a="x" if fail else 3, l=[1, 2], opts={"mode": "slow", "level": 2}, lim={"lo": 0, "hi": 9})
            call = (lambda: p.dump(arg, skip_default=True)) if entry == "dump_skip_default" else (lambda: p.validate(arg))
    elif entry in ("od_parse_object", "od_validate", "od_dump"):
        p = od_parser()
        if entry == "od_parse_object":
            arg = od_values(False, fail)
            call = lambda: p.parse_object(arg)
        else:
            arg = Namespace(**od_values(entry == "od_dump", fail))
            call = (lambda: p.validate(arg)) if entry == "od_validate" else (lambda: p.dump(arg))
    elif entry in ("save_links", "save_links_sub", "dump_links"):
        # parse, then save (multi-file mode, the default) / dump the parsed configuration: is it still what it was?
        decls = links_parser()
        p = ArgumentParser(exit_on_error=False)
        if entry == "save_links_sub":
            sub = ArgumentParser(exit_on_error=False)
            decls(sub)
            sc = p.add_subcommands()
            sc.add_subcommand("fit", sub)
            arg = p.parse_args(["fit", "--a=3", "--g.x=4"])
        else:
            decls(p)
            arg = p.parse_args(["--a=3", "--g.x=4"])
        out = place(work, kind, "out.yaml", "")
        if not fail:
            os.remove(os.path.join(work, "real", "out.yaml"))      # fail: the target exists and overwrite is off
        call = (lambda: p.dump(arg)) if entry == "dump_links" else (lambda: p.save(arg, out))
    elif entry in ("ty_parse_object", "ty_validate", "ty_dump", "ty_instantiate", "ty_parse_args"):
        # the branches of adapt_typehints the heap model has no types for: Literal, Union, Enum, Set, Dict[int,.], TypedDict
        # (val[k] = ... write-back), Type[...], callable class specs (val["class_path"] = ...), dataclasses inside lists,
        # registered types, class instances; the values handed over are the caller's own containers
        p = ty_parser()
        if entry == "ty_parse_object":
            arg = ty_values(False, fail)
            call = lambda: p.parse_object(arg)
        elif entry == "ty_parse_args":
            arg = ["--seq+", "3", "--seq+=[4, 5]", "--dk.a", "1", "--dk.b=2", "--lit", "b", "--un=[1, 2]", "--en", "BLUE",
                   "--st=[1, 2]", "--cb", "__main__.Scale", "--cb.k", "x" if fail else "4", "--dcs+", '{"x": "1", "ys": ["2"]}']
            call = lambda: p.parse_args(arg)
        else:
            arg = Namespace(**ty_values(entry == "ty_dump", fail))
            call = {"ty_validate": lambda: p.validate(arg), "ty_dump": lambda: p.dump(arg),
                    "ty_instantiate": lambda: p.instantiate_classes(arg)}[entry]
    elif entry in ("validate_required", "validate_group_scalar", "validate_group_extra"):
        p = ArgumentParser(exit_on_error=False)
        p.add_argument("--need", type=List[int], required=True)
        p.add_argument("--g.x", type=int, default=1)
        p.add_argument("--g.l", type=List[int], default=[1])
        if entry == "validate_required":
            arg = Namespace(g=Namespace(x=1, l=[2])) if fail else Namespace(need=[1, 2], g=Namespace(x=1, l=[2]))
        elif entry == "validate_group_scalar":
            arg = Namespace(need=[1], g=[5]) if fail else Namespace(need=[1], g=Namespace(x=2, l=[3]))
        else:
            arg = Namespace(need=[1], g=Namespace(x=2, l=[3], zz=[4])) if fail else Namespace(need=[1], g=Namespace(x=2, l=[3]))
        call = lambda: p.validate(arg)
    elif entry in ("inst_sub", "inst_sub_empty"):
        # instantiate_classes through a subcommand whose parser has a dataclass argument, a class group and a typed list
        sub = ArgumentParser(exit_on_error=False)
        sub.add_argument("--pt", type=Pt, default=Pt(x=1, ys=[1]))
        sub.add_class_arguments(Scale, "sc")
        sub.add_argument("--l", type=List[int], nargs="*", default=[[1]])
        p = ArgumentParser(exit_on_error=False)
        p.add_argument("--top", type=List[int], default=[0])
        sc = p.add_subcommands()
        sc.add_subcommand("fit", sub)
        if entry == "inst_sub":
            arg = p.parse_args(["fit", "--pt.x=3", "--sc.k=5", "--l", "[1, 2]", "[3]"])
            if fail:
                arg.fit.l = [["x"]]
        else:
            # only the subcommand's branch is given, everything in it empty
            arg = Namespace(fit=Namespace(), subcommand="fit")
            if fail:
                arg.fit = Namespace(l=[["x"]])
        call = lambda: p.instantiate_classes(arg)
    elif entry in ("dflt_many_get_defaults", "dflt_many_parse_args"):
        # several default config files (one of them empty), defaults declared through set_defaults (mapping and keyword form)
        f1 = place(os.path.join(work, "1"), kind, "d1.yaml", "a: 5\nd:\n  k: 2\n")
        f2 = place(os.path.join(work, "2"), kind, "d2.yaml", "")
        f3 = place(os.path.join(work, "3"), kind, "d3.yaml", "l: [7]\n")
        f4 = place(os.path.join(work, "4"), kind, "d4.yaml", "zz: 1\n" if fail else "a: 6\n")
        p = ArgumentParser(exit_on_error=False, default_config_files=[f1, f2, f3, f4])
        p.add_argument("--a", type=int, default=1)
        p.add_argument("--d", type=Dict[str, int], default={"k": 1})
        p.add_argument("--l", type=List[int])
        p.add_class_arguments(Scale, "sc")
        user = {"l": [1, 2], "d": {"k": 3}}
        p.set_defaults({"l": user["l"], "sc": {"k": 3}})
        p.set_defaults(d=user["d"])
        p.c08_user = user
        arg = []
        call = p.get_defaults if entry == "dflt_many_get_defaults" else (lambda: p.parse_args(arg))
    else:
        raise SystemExit("unknown entry " + entry)
    snap = deep(arg)
    known = {id(a) for a in p._actions}   # parse_args may add helper actions lazily; they are not declarations
    d_before = declared(p)
    token = None
    if case.get("preset"):
        # a history: somebody else has installed another Namespace class in argparse, an enclosing context has set
        # load_value_mode, the environment has one more variable
        argparse.Namespace = ForeignNamespace
        token = load_value_mode.set("yaml")
        os.environ["C08_PRESET"] = "1"
    g_before = read_globals()
    ok, exc = True, ""
    try:
        call()
    except SystemExit as e:
        ok, exc = False, "SystemExit"
    except BaseException as e:  # noqa
        ok, exc = False, type(e).__name__
    g_after = read_globals()
    gl = [same(a, b) for a, b in zip(g_before, g_after)]
    try:
        os.chdir(base)
    except OSError:
        pass
    argparse.Namespace = ORIG_ARGPARSE_NS
    if token is not None:
        load_value_mode.reset(token)
        os.environ.pop("C08_PRESET", None)
    d_after = declared(p, known)
    shutil.rmtree(work, ignore_errors=True)
    return {"ok": ok, "globals": gl, "args_same": deep(arg) == snap, "defaults_same": d_before == d_after,
            "exc": exc}


def main():
    payload = json.load(sys.stdin)
    base = os.path.realpath(payload["scratch"])
    os.makedirs(base, exist_ok=True)
    os.chdir(base)
    out = []
    try:
        for i, c in enumerate(payload["cases"]):
            out.append(run(c, base, i))
    finally:
        os.chdir("/")
        shutil.rmtree(base, ignore_errors=True)
    print(json.dumps(out))


main()

"""C07 runner: builds the four declaration styles of one nested group on the real jsonargparse and observes
their action tables and their answers to inputs.

stdin : {"cases": [ {"gk": str, "fields": [[name, ty, dflt], ...], "nfields": [...], "inputs": [input, ...]}, ... ]}
        fields  = the declared field list: the dataclass / class styles are built from it
        nfields = its normal form under the documented signature rules: the dotted / inner-parser styles are
                  declared from it (one add_argument per field)
        ty    = "int" | "str" | "bool" | ["list", ty] | ["opt", ty]
        dflt  = {"nd": 1} (no default) | {"v": json value}
        input = {"env": {NAME: text}, "kind": "args", "args": [[opt, value], ...]}   -> parse_args(["opt=value", ...])
              | {"env": ..., "kind": "obj", "obj": {...}}                              -> parse_object(obj)
              | {"env": ..., "kind": "str", "text": "..."}                             -> parse_string(text)
stdout: last line = JSON list, per case {"tables": {style: table}, "runs": [ {"pv": [[s, v]...], "jl": [...],
        "styles": {style: {"out": ..., "dump": ...}}} ... ]}
Values are JSON values; anything outside None/bool/int/str/list/dict(str keys) is {"__other__": type name}.
"""
import dataclasses
import inspect
import json
import os
import sys
from typing import List, Optional, Union

import yaml

from jsonargparse import ActionConfigFile, ActionParser, ArgumentParser, Namespace
from jsonargparse._actions import _ActionConfigLoad, filter_default_actions
from jsonargparse._common import parser_context
from jsonargparse._loaders_dumpers import get_loader_exceptions, json_or_yaml_load, json_or_yaml_loader_exceptions
from jsonargparse._typehints import ActionTypeHint
from jsonargparse._util import parse_value_or_config

try:
    from jsonargparse import ArgumentError
except ImportError:  # pragma: no cover
    from argparse import ArgumentError

STYLES = ["dotted", "dcls", "cls", "inner"]
MISSING = dataclasses.MISSING


def py_type(t):
    if t == "int":
        return int
    if t == "str":
        return str
    if t == "bool":
        return bool
    if t[0] == "list":
        return List[py_type(t[1])]
    if t[0] == "opt":
        return Optional[py_type(t[1])]
    raise ValueError(t)


def ty_of(hint):
    if hint is int:
        return "int"
    if hint is str:
        return "str"
    if hint is bool:
        return "bool"
    origin = getattr(hint, "__origin__", None)
    args = getattr(hint, "__args__", ())
    if origin in (list, List) and len(args) == 1:
        return ["list", ty_of(args[0])]
    if origin is Union and len(args) == 2 and type(None) in args:
        other = [a for a in args if a is not type(None)][0]
        return ["opt", ty_of(other)]
    return ["other", str(hint)]


def fields_of(fields):
    out = []
    for name, t, d in fields:
        out.append((name, py_type(t), MISSING if "nd" in d else d["v"]))
    return out


def mk_dataclass(fields):
    fl = []
    for n, t, d in fields:
        if d is MISSING:
            fl.append((n, t))
        elif isinstance(d, (list, dict)):
            fl.append((n, t, dataclasses.field(default_factory=lambda d=d: json.loads(json.dumps(d)))))
        else:
            fl.append((n, t, dataclasses.field(default=d)))
    return dataclasses.make_dataclass("G", fl, kw_only=True)


def mk_class(fields):
    params = [inspect.Parameter("self", inspect.Parameter.POSITIONAL_OR_KEYWORD)]
    for n, t, d in fields:
        params.append(
            inspect.Parameter(
                n, inspect.Parameter.KEYWORD_ONLY, annotation=t, default=inspect.Parameter.empty if d is MISSING else d
            )
        )

    class K:
        def __init__(self, *a, **k):
            pass

    K.__init__.__signature__ = inspect.Signature(params)
    return K


def base():
    p = ArgumentParser(exit_on_error=False, default_env=True, env_prefix="APP")
    p.add_argument("--cfg", action=ActionConfigFile)
    return p


def add_each(p, prefix, fields):
    for n, t, d in fields:
        kw = {"required": True} if d is MISSING else {"default": json.loads(json.dumps(d))}
        p.add_argument("--" + prefix + n, type=t, **kw)


def build(style, gk, fields, nfields):
    """fields: the declared field list (signature styles); nfields: its normal form under the documented
    signature rules (computed by the harness, checked against Model.C07Decl.norm by the judge), from which the
    two add_argument styles are declared"""
    p = base()
    if style == "dotted":
        add_each(p, gk + ".", nfields)
    elif style == "dcls":
        p.add_argument("--" + gk, type=mk_dataclass(fields))
    elif style == "cls":
        p.add_class_arguments(mk_class(fields), gk)
    elif style == "inner":
        ip = ArgumentParser(exit_on_error=False)
        add_each(ip, "", nfields)
        p.add_argument("--" + gk, action=ActionParser(parser=ip))
    return p


def canon(v):
    if v is None or isinstance(v, (bool, int, str)):
        return v
    if isinstance(v, (list, tuple)):
        return [canon(x) for x in v]
    if isinstance(v, Namespace):
        v = v.as_dict()
    if isinstance(v, dict) and all(isinstance(k, str) for k in v):
        return {k: canon(x) for k, x in v.items()}
    return {"__other__": type(v).__name__}


def table(p):
    rows = []
    for a in filter_default_actions(p._actions):
        if isinstance(a, ActionConfigFile):
            continue
        if isinstance(a, _ActionConfigLoad):
            kind, ty = "load", None
        elif isinstance(a, ActionTypeHint):
            kind, ty = "leaf", ty_of(a._typehint)
        else:
            kind, ty = "other:" + type(a).__name__, None
        dflt = {"suppress": 1} if a.default == "==SUPPRESS==" else {"v": canon(a.default)}
        rows.append({"dest": a.dest, "opts": list(a.option_strings), "ty": ty, "default": dflt, "kind": kind,
                     "nargs": a.nargs if a.nargs is None or isinstance(a.nargs, (int, str)) else str(a.nargs)})
    return {"rows": rows, "required": sorted(p.required_args)}


def ns_items(d):
    """top-level (key, value) with one nested level kept apart"""
    out = []
    for k, v in d.items():
        if k == "cfg":
            continue
        if isinstance(v, Namespace):
            out.append([k, {"ns": [[f, canon(x)] for f, x in vars(v).items()]}])
        elif isinstance(v, dict):
            out.append([k, {"ns": [[str(f), canon(x)] for f, x in v.items()]}])
        else:
            out.append([k, {"leaf": canon(v)}])
    return out


def run_one(p, inp):
    try:
        if inp["kind"] == "args":
            cfg = p.parse_args([o + "=" + v for o, v in inp["args"]])
        elif inp["kind"] == "obj":
            cfg = p.parse_object(json.loads(json.dumps(inp["obj"])))
        else:
            cfg = p.parse_string(inp["text"])
    except ArgumentError:
        return {"out": "reject", "dump": None}
    except SystemExit as e:
        return {"out": "exit" if e.code in (0, None) else "reject", "dump": None}
    except BaseException as e:  # noqa
        return {"out": "other:" + type(e).__name__, "dump": None}
    out = {"ok": ns_items(vars(cfg))}
    try:
        text = p.dump(cfg)
        loaded = yaml.safe_load(text)
        dump = {"text": text, "items": ns_items(loaded if isinstance(loaded, dict) else {"__notdict__": loaded})}
    except BaseException as e:  # noqa
        dump = {"err": type(e).__name__}
    return {"out": out, "dump": dump}


def strings_in(v, acc):
    if isinstance(v, str):
        acc.add(v)
    elif isinstance(v, list):
        for x in v:
            strings_in(x, acc)
    elif isinstance(v, dict):
        for k, x in v.items():
            strings_in(x, acc)


def loader_tables(case, inp):
    """pv / jl on every text the model may look at: the texts of the input and of the defaults, closed under the
    strings inside what they load to."""
    todo = set()
    for _, _, d in case["fields"]:
        if "v" in d:
            strings_in(d["v"], todo)
    for v in inp["env"].values():
        todo.add(v)
    if inp["kind"] == "args":
        for _, v in inp["args"]:
            todo.add(v)
    elif inp["kind"] == "obj":
        strings_in(inp["obj"], todo)
    else:
        todo.add(inp["text"])
    pv, jl, done = [], [], set()
    for _ in range(4):
        new = set()
        for s in sorted(todo - done):
            done.add(s)
            try:
                a = parse_value_or_config(s, enable_path=False)[0]
            except get_loader_exceptions():  # _check_type / _load_config: the text is not loadable
                a = s
            a = canon(a)
            if a != s:
                pv.append([s, a])
                strings_in(a, new)
            try:
                b = json_or_yaml_load(s)
            except json_or_yaml_loader_exceptions:  # suppressed in adapt_typehints: the text stays
                b = s
            b = canon(b)
            if b != s:
                jl.append([s, b])
        todo |= new
    return pv, jl


def main():
    cases = json.load(sys.stdin)["cases"]
    saved = dict(os.environ)
    out = []
    for case in cases:
        fields = fields_of(case["fields"])
        nfields = fields_of(case["nfields"])
        res = {"tables": {}, "runs": []}
        for st in STYLES:
            try:
                res["tables"][st] = table(build(st, case["gk"], fields, nfields))
            except BaseException as e:  # noqa
                res["tables"][st] = {"error": type(e).__name__ + ": " + str(e)[:200]}
        for inp in case["inputs"]:
            with parser_context(load_value_mode="yaml"):
                pv, jl = loader_tables(case, inp)
            r = {"pv": pv, "jl": jl, "styles": {}}
            for st in STYLES:
                os.environ.clear()
                os.environ.update(saved)
                os.environ.update(inp["env"])
                try:
                    p = build(st, case["gk"], fields, nfields)
                except BaseException as e:  # noqa
                    r["styles"][st] = {"out": "other:build:" + type(e).__name__, "dump": None}
                    continue
                r["styles"][st] = run_one(p, inp)
            os.environ.clear()
            os.environ.update(saved)
            res["runs"].append(r)
        out.append(res)
    sys.stdout.flush()
    print(json.dumps(out))


if __name__ == "__main__":
    main()

"""C07 runner: builds the four declaration styles of one nested group on the real jsonargparse and observes
their action tables and their answers to inputs.

stdin : {"cases": [ {"gk": str, "members": [member, ...], "nmembers": [...], "cls_full": bool, "inputs": [input, ...]}, ... ]}
        member   = [name, ty, dflt]  |  [name, ty, dflt, {"o": value}]  (the declaration overrides the default: default=<instance>
                   for the dataclass style, default=<dict> for the class style, plain default= for the other two)
                 | {"sub": name, "fields": [leaf member, ...], "mdef": bool}  (a dataclass-typed member: a nested sub-group;
                   mdef: the member has a default instance)
        members  = the declared members: the dataclass / class styles are built from them
        nmembers = their normal form under the documented signature rules: the dotted / inner-parser styles are
                   declared from it (one add_argument per leaf, a nested ActionParser per sub-group)
        cls_full = the class style's default= dict names every offered member (else only the overridden ones)
        inner_history = null | how the component parser of the inner-parser style was USED on its own before being
                   attached (parse_env / parse_args_env / parse_args / help / defaults / dump / refused_attach = first offered
                   to a parent that refuses it for conflicting keys; it then has
                   default_env=True, env_prefix="COMPONENT")
        variant = null | {"dcls_kind": "dataclass" | "final" | "attrs" | "pydantic"  (what the dataclass-LIKE type of the
                   dataclass style is: is_dataclass_like accepts @final classes, attrs classes and pydantic models),
                   "cls_default": "dict" | "ns" | "lazy" (the class style's default= mapping is a dict, a Namespace or a
                   lazy_instance of the class),
                   "skip": null | {"mode": "names" | "count", "extra": [[position, leaf member], ...]}}: the class /
                   dataclass-like types of the signature styles have EXTRA parameters that the declaration skips
                   (skip={names} or skip={number of leading parameters}); the dotted / inner-parser styles never
                   declare them
        ty    = "int" | "str" | "bool" | ["list", ty] | ["opt", ty]
        dflt  = {"nd": 1} (no default) | {"v": json value}
        input = {"env": {NAME: text}, "kind": "args", "args": [[opt, value], ...]}   -> parse_args(["opt=value", ...])
              | {"env": ..., "kind": "obj", "obj": {...}}                              -> parse_object(obj)
              | {"env": ..., "kind": "str", "text": "..."}                             -> parse_string(text)
stdout: last line = JSON list, per case {"tables": {style: table}, "runs": [ {"pv": [[s, v]...], "jl": [...],
        "styles": {style: {"out": ..., "dump": ...}}} ... ]}
Values are JSON values; anything outside None/bool/int/str/list/dict(str keys) is {"__other__": type name}.
"""
import dataclasses
import inspect
import json
import os
import sys
from typing import List, Optional, Union

import yaml

from jsonargparse import ActionConfigFile, ActionParser, ArgumentParser, Namespace
from jsonargparse._actions import _ActionConfigLoad, filter_default_actions
from jsonargparse._common import parser_context
from jsonargparse._loaders_dumpers import get_loader_exceptions, json_or_yaml_load, json_or_yaml_loader_exceptions
from jsonargparse._typehints import ActionTypeHint
from jsonargparse._util import parse_value_or_config

try:
    from jsonargparse import ArgumentError
except ImportError:  # pragma: no cover
    from argparse import ArgumentError

STYLES = ["dotted", "dcls", "cls", "inner"]
MISSING = dataclasses.MISSING


def py_type(t):
    if t == "int":
        return int
    if t == "str":
        return str
    if t == "bool":
        return bool
    if t[0] == "list":
        return List[py_type(t[1])]
    if t[0] == "opt":
        return Optional[py_type(t[1])]
    raise ValueError(t)


def ty_of(hint):
    if hint is int:
        return "int"
    if hint is str:
        return "str"
    if hint is bool:
        return "bool"
    origin = getattr(hint, "__origin__", None)
    args = getattr(hint, "__args__", ())
    if origin in (list, List) and len(args) == 1:
        return ["list", ty_of(args[0])]
    if origin is Union and len(args) == 2 and type(None) in args:
        other = [a for a in args if a is not type(None)][0]
        return ["opt", ty_of(other)]
    return ["other", str(hint)]


def fields_of(fields):
    """[[name, ty, dflt, over?], ...] -> [(name, type, signature default | MISSING, override | MISSING)]"""
    out = []
    for f in fields:
        name, t, d = f[0], f[1], f[2]
        over = f[3]["o"] if len(f) > 3 and f[3] is not None else MISSING
        out.append((name, py_type(t), MISSING if "nd" in d else d["v"], over))
    return out


def members_of(members):
    """leaf: [name, ty, dflt, over?]; nested dataclass-typed member: {"sub": name, "fields": [...], "mdef": bool}"""
    out = []
    for m in members:
        if isinstance(m, dict):
            out.append(("sub", m["sub"], fields_of(m["fields"]), bool(m.get("mdef"))))
        else:
            out.append(("leaf",) + fields_of([m])[0])
    return out


def fresh(v):
    return json.loads(json.dumps(v))


def dc_fields(fields):
    fl = []
    for n, t, d, _ in fields:
        if d is MISSING:
            fl.append((n, t))
        elif isinstance(d, (list, dict)):
            fl.append((n, t, dataclasses.field(default_factory=lambda d=d: fresh(d))))
        else:
            fl.append((n, t, dataclasses.field(default=d)))
    return fl


def mk_dataclass(members, name="G"):
    """returns (dataclass, {sub name: sub dataclass})"""
    fl, subs = [], {}
    for m in members:
        if m[0] == "leaf":
            fl += dc_fields([m[1:]])
        else:
            _, n, sfields, mdef = m
            sub = dataclasses.make_dataclass("S_" + n, dc_fields(sfields), kw_only=True)
            subs[n] = sub
            fl.append((n, sub, dataclasses.field(default_factory=sub)) if mdef else (n, sub))
    return dataclasses.make_dataclass(name, fl, kw_only=True), subs


_COUNTER = [0]


def mk_class(members):
    params = [inspect.Parameter("self", inspect.Parameter.POSITIONAL_OR_KEYWORD)]
    for m in members:
        if m[0] == "leaf":
            _, n, t, d, _ = m
            default = inspect.Parameter.empty if d is MISSING else d
        else:
            _, n, sfields, mdef = m
            t = dataclasses.make_dataclass("S_" + n, dc_fields(sfields), kw_only=True)
            default = t() if mdef else inspect.Parameter.empty
        params.append(inspect.Parameter(n, inspect.Parameter.KEYWORD_ONLY, annotation=t, default=default))

    class K:
        def __init__(self, *a, **k):
            pass

    K.__init__.__signature__ = inspect.Signature(params)
    # lazy_instance caches its generated subclass by CLASS NAME in the calling module: every class gets its own name
    _COUNTER[0] += 1
    K.__name__ = K.__qualname__ = "K%d" % _COUNTER[0]
    return K


def mk_final(members):
    from typing import final
    return final(mk_class(members))


def mk_pydantic(members):
    import pydantic
    fl, subs = {}, {}
    for m in members:
        if m[0] == "leaf":
            _, n, t, d, _ = m
            if d is MISSING:
                fl[n] = (t, ...)
            elif isinstance(d, (list, dict)):
                fl[n] = (t, pydantic.Field(default_factory=lambda d=d: fresh(d)))
            else:
                fl[n] = (t, d)
        else:
            _, n, sfields, mdef = m
            sub = dataclasses.make_dataclass("S_" + n, dc_fields(sfields), kw_only=True)
            subs[n] = sub
            fl[n] = (sub, pydantic.Field(default_factory=sub)) if mdef else (sub, ...)
    return pydantic.create_model("G", **fl), subs


def mk_attrs(members):
    import attrs
    fl, subs = {}, {}
    for m in members:
        if m[0] == "leaf":
            _, n, t, d, _ = m
            if d is MISSING:
                fl[n] = attrs.field(type=t)
            elif isinstance(d, (list, dict)):
                fl[n] = attrs.field(type=t, factory=lambda d=d: fresh(d))
            else:
                fl[n] = attrs.field(type=t, default=d)
        else:
            _, n, sfields, mdef = m
            sub = attrs.make_class("S_" + n, {f[0]: (attrs.field(type=f[1]) if f[2] is MISSING else
                                                     attrs.field(type=f[1], factory=lambda d=f[2]: fresh(d)))
                                              for f in sfields}, kw_only=True)
            subs[n] = sub
            fl[n] = attrs.field(type=sub, factory=sub) if mdef else attrs.field(type=sub)
    return attrs.make_class("G", fl, kw_only=True), subs


def with_extras(members, skip):
    """the parameters of the class / dataclass-like type: the declared members plus the EXTRA ones the declaration
    skips; returns (parameters, skip= argument or None, names of the extras)"""
    if not skip:
        return members, None, []
    extras = [(pos, ("leaf",) + fields_of([f])[0]) for pos, f in skip["extra"]]
    names = [e[1][1] for e in extras]
    if skip["mode"] == "count":
        return [e[1] for e in extras] + list(members), {len(extras)}, names
    out = list(members)
    for pos, e in sorted(extras, key=lambda pe: -pe[0]):
        out.insert(min(pos, len(out)), e)
    return out, set(names), names


def to_ns(d):
    return Namespace(**{k: to_ns(v) if isinstance(v, dict) else v for k, v in d.items()})


def has_overrides(members):
    for m in members:
        fs = [m[1:]] if m[0] == "leaf" else m[2]
        if any(f[3] is not MISSING for f in fs):
            return True
    return False


def skipped(n, d):
    """non-required private parameter that HAS a default in the signature: not offered by the signature styles"""
    return n.startswith("_") and d is not MISSING


def override_dict(members, full):
    """the default= mapping of the class style: only the overridden members (full=False) or every offered member"""
    out = {}
    for m in members:
        if m[0] == "leaf":
            _, n, _, d, o = m
            if o is not MISSING:
                out[n] = fresh(o)
            elif full and d is not MISSING and not skipped(n, d):
                out[n] = fresh(d)
        else:
            _, n, sfields, _ = m
            sub = override_dict([("leaf",) + f for f in sfields], full)
            if sub or full:
                out[n] = sub
    return out


def sample_value(t):
    origin = getattr(t, "__origin__", None)
    if t is int:
        return 3
    if t is str:
        return "sk"
    if t is bool:
        return True
    if origin in (list, List):
        return []
    return None


def override_instance(cls, subs, members, extra_names=()):
    """the default= instance of the dataclass style: the overridden values, signature defaults elsewhere (a skipped
    extra parameter without default needs some value)"""
    kw = {}
    for m in members:
        if m[0] == "leaf":
            if m[4] is not MISSING:
                kw[m[1]] = fresh(m[4])
            elif m[1] in extra_names and m[3] is MISSING:
                kw[m[1]] = sample_value(m[2])
        else:
            _, n, sfields, _ = m
            kw[n] = subs[n](**{f[0]: fresh(f[3]) for f in sfields if f[3] is not MISSING})
    return cls(**kw)


def base():
    p = ArgumentParser(exit_on_error=False, default_env=True, env_prefix="APP")
    p.add_argument("--cfg", action=ActionConfigFile)
    return p


def add_each(p, prefix, fields):
    """one add_argument per field, with the overriding default where the declaration gives one"""
    for n, t, d, o in fields:
        if o is not MISSING:
            kw = {"default": fresh(o)}
            if d is MISSING:
                kw["required"] = True
        else:
            kw = {"required": True} if d is MISSING else {"default": fresh(d)}
        p.add_argument("--" + prefix + n, type=t, **kw)


def use_standalone(parser, how, key="x"):
    """the construction HISTORY of the inner-parser style: the component parser was used on its own before it is
    attached under the key (a parse with environment parsing, a plain parse, its help rendered, its defaults read)"""
    import io
    from contextlib import redirect_stdout, redirect_stderr
    try:
        with redirect_stdout(io.StringIO()), redirect_stderr(io.StringIO()):
            if how == "refused_attach":
                # offered to another parent that already owns one of the prefixed option strings: the documented
                # ValueError ("ActionParser conflicting keys"); the caller recovers and attaches it elsewhere
                first = next(k for k in filter_default_actions(parser._option_string_actions) if k.startswith("--"))
                other = ArgumentParser(exit_on_error=False)
                other.add_argument("--" + key + "." + first[2:])
                try:
                    other.add_argument("--" + key, action=ActionParser(parser=parser))
                except ValueError:
                    pass
            elif how == "refused_self":
                # offered to ITSELF: "Parser cannot be added as a subparser of itself" (ValueError)
                try:
                    parser.add_argument("--" + key, action=ActionParser(parser=parser))
                except ValueError:
                    pass
            elif how == "parse_env":
                parser.parse_env({})
            elif how == "parse_args_env":
                parser.parse_args([], env=True)
            elif how == "parse_args":
                parser.parse_args([])
            elif how == "help":
                parser.format_help()
            elif how == "defaults":
                parser.get_defaults()
            elif how == "dump":
                parser.dump(parser.get_defaults())
    except BaseException:  # noqa: a required option is missing etc.: the component was used all the same
        pass


def build(style, gk, members, nmembers, cls_full=False, history=None, variant=None):
    """members: the declared members (signature styles); nmembers: their normal form under the documented
    signature rules (computed by the harness, checked against Model.C07Decl.mnorm by the judge), from which the
    two add_argument styles are declared"""
    p = base()
    variant = variant or {}
    if style == "dotted":
        for m in nmembers:
            if m[0] == "leaf":
                add_each(p, gk + ".", [m[1:]])
            else:
                add_each(p, gk + "." + m[1] + ".", m[2])
    elif style == "dcls":
        params, skip, extra_names = with_extras(members, variant.get("skip"))
        kw = {} if skip is None else {"skip": skip}
        kind = variant.get("dcls_kind") or "dataclass"
        if kind == "final":
            # a @final class is dataclass-like; its default= cannot be an instance: a complete mapping
            if has_overrides(members):
                kw["default"] = override_dict(members, True)
            p.add_argument("--" + gk, type=mk_final(params), **kw)
        else:
            cls, subs = {"dataclass": mk_dataclass, "attrs": mk_attrs, "pydantic": mk_pydantic}[kind](params)
            if has_overrides(members):
                kw["default"] = override_instance(cls, subs, params, extra_names)
            p.add_argument("--" + gk, type=cls, **kw)
    elif style == "cls":
        params, skip, extra_names = with_extras(members, variant.get("skip"))
        kw = {} if skip is None else {"skip": skip}
        if has_overrides(members):
            # with skip={names} the mapping may also name the skipped parameters (they are filtered out)
            named = params if (cls_full and skip is not None and variant["skip"]["mode"] == "names") else members
            d = override_dict(named, cls_full)
            kw["default"] = to_ns(d) if variant.get("cls_default") == "ns" else d
        klass = mk_class(params)
        # (a lazy instance must satisfy the signature: not used when a skipped extra parameter has no default)
        if has_overrides(members) and variant.get("cls_default") == "lazy" \
                and not any(m[1] in extra_names and m[3] is MISSING for m in params if m[0] == "leaf"):
            from jsonargparse import lazy_instance
            kw["default"] = lazy_instance(klass, **d)     # default=<lazy instance>: its init args are the mapping
        p.add_class_arguments(klass, gk, **kw)
    elif style == "inner":
        kw = {"default_env": True, "env_prefix": "COMPONENT"} if history else {}
        ip = ArgumentParser(exit_on_error=False, **kw)
        for m in nmembers:
            if m[0] == "leaf":
                add_each(ip, "", [m[1:]])
            else:
                sp = ArgumentParser(exit_on_error=False, **kw)
                add_each(sp, "", m[2])
                if history:
                    use_standalone(sp, history, m[1])
                ip.add_argument("--" + m[1], action=ActionParser(parser=sp))
        if history:
            use_standalone(ip, history, gk)
        p.add_argument("--" + gk, action=ActionParser(parser=ip))
    return p


def canon(v):
    if v is None or isinstance(v, (bool, int, str)):
        return v
    if isinstance(v, (list, tuple)):
        return [canon(x) for x in v]
    if isinstance(v, Namespace):
        v = v.as_dict()
    if isinstance(v, dict) and all(isinstance(k, str) for k in v):
        return {k: canon(x) for k, x in v.items()}
    return {"__other__": type(v).__name__}


def table(p):
    rows = []
    for a in filter_default_actions(p._actions):
        if isinstance(a, ActionConfigFile):
            continue
        if isinstance(a, _ActionConfigLoad):
            kind, ty = "load", None
        elif isinstance(a, ActionTypeHint):
            kind, ty = "leaf", ty_of(a._typehint)
        else:
            kind, ty = "other:" + type(a).__name__, None
        dflt = {"suppress": 1} if a.default == "==SUPPRESS==" else {"v": canon(a.default)}
        rows.append({"dest": a.dest, "opts": list(a.option_strings), "ty": ty, "default": dflt, "kind": kind,
                     "nargs": a.nargs if a.nargs is None or isinstance(a.nargs, (int, str)) else str(a.nargs)})
    return {"rows": rows, "required": sorted(p.required_args)}


def flat_ns(v, prefix, out):
    """the levels below the group key are flattened into dotted field names (the model's namespace has two levels)"""
    items = vars(v).items() if isinstance(v, Namespace) else v.items()
    for f, x in items:
        if isinstance(x, (Namespace, dict)) and (isinstance(x, Namespace) or all(isinstance(k, str) for k in x)) \
                and (vars(x) if isinstance(x, Namespace) else x):
            flat_ns(x, prefix + str(f) + ".", out)
        elif isinstance(x, Namespace) or (isinstance(x, dict) and not x):
            continue   # an empty sub-namespace has no leaves
        else:
            out.append([prefix + str(f), canon(x)])
    return out


def ns_items(d):
    """top-level (key, value); below a top-level key the leaves with their dotted paths"""
    out = []
    for k, v in d.items():
        if k == "cfg":
            continue
        if isinstance(v, (Namespace, dict)):
            out.append([k, {"ns": flat_ns(v, "", [])}])
        else:
            out.append([k, {"leaf": canon(v)}])
    return out


def run_one(p, inp):
    try:
        if inp["kind"] == "args":
            cfg = p.parse_args([o + "=" + v for o, v in inp["args"]])
        elif inp["kind"] == "obj":
            cfg = p.parse_object(json.loads(json.dumps(inp["obj"])))
        else:
            cfg = p.parse_string(inp["text"])
    except ArgumentError:
        return {"out": "reject", "dump": None}
    except SystemExit as e:
        return {"out": "exit" if e.code in (0, None) else "reject", "dump": None}
    except BaseException as e:  # noqa
        return {"out": "other:" + type(e).__name__, "dump": None}
    out = {"ok": ns_items(vars(cfg))}
    try:
        text = p.dump(cfg)
        loaded = yaml.safe_load(text)
        dump = {"text": text, "items": ns_items(loaded if isinstance(loaded, dict) else {"__notdict__": loaded})}
    except BaseException as e:  # noqa
        dump = {"err": type(e).__name__}
    return {"out": out, "dump": dump}


def strings_in(v, acc):
    if isinstance(v, str):
        acc.add(v)
    elif isinstance(v, list):
        for x in v:
            strings_in(x, acc)
    elif isinstance(v, dict):
        for k, x in v.items():
            strings_in(x, acc)


def loader_tables(case, inp):
    """pv / jl on every text the model may look at: the texts of the input and of the defaults, closed under the
    strings inside what they load to."""
    todo = set()
    for m in case["members"]:
        for f in (m["fields"] if isinstance(m, dict) else [m]):
            if "v" in f[2]:
                strings_in(f[2]["v"], todo)
            if len(f) > 3 and f[3] is not None:
                strings_in(f[3]["o"], todo)
    for v in inp["env"].values():
        todo.add(v)
    if inp["kind"] == "args":
        for _, v in inp["args"]:
            todo.add(v)
    elif inp["kind"] == "obj":
        strings_in(inp["obj"], todo)
    else:
        todo.add(inp["text"])
    pv, jl, done = [], [], set()
    for _ in range(4):
        new = set()
        for s in sorted(todo - done):
            done.add(s)
            try:
                a = parse_value_or_config(s, enable_path=False)[0]
            except get_loader_exceptions():  # _check_type / _load_config: the text is not loadable
                a = s
            a = canon(a)
            if a != s:
                pv.append([s, a])
                strings_in(a, new)
            try:
                b = json_or_yaml_load(s)
            except json_or_yaml_loader_exceptions:  # suppressed in adapt_typehints: the text stays
                b = s
            b = canon(b)
            if b != s:
                jl.append([s, b])
        todo |= new
    return pv, jl


def main():
    cases = json.load(sys.stdin)["cases"]
    saved = dict(os.environ)
    out = []
    for case in cases:
        if "members" not in case:   # older replay files: a flat field list
            case["members"], case["nmembers"] = case["fields"], case["nfields"]
        fields = members_of(case["members"])
        nfields = members_of(case["nmembers"])
        full = bool(case.get("cls_full"))
        history = case.get("inner_history")
        variant = case.get("variant")
        res = {"tables": {}, "runs": []}
        for st in STYLES:
            try:
                res["tables"][st] = table(build(st, case["gk"], fields, nfields, full, history, variant))
            except BaseException as e:  # noqa
                res["tables"][st] = {"error": type(e).__name__ + ": " + str(e)[:200]}
        for inp in case["inputs"]:
            with parser_context(load_value_mode="yaml"):
                pv, jl = loader_tables(case, inp)
            r = {"pv": pv, "jl": jl, "styles": {}}
            for st in STYLES:
                os.environ.clear()
                os.environ.update(saved)
                os.environ.update(inp["env"])
                try:
                    p = build(st, case["gk"], fields, nfields, full, history, variant)
                except BaseException as e:  # noqa
                    r["styles"][st] = {"out": "other:build:" + type(e).__name__, "dump": None}
                    continue
                r["styles"][st] = run_one(p, inp)
            os.environ.clear()
            os.environ.update(saved)
            res["runs"].append(r)
        out.append(res)
    sys.stdout.flush()
    print(json.dumps(out))


if __name__ == "__main__":
    main()

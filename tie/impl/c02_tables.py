"""C02: the sets of the live jsonargparse that decide which adapt_typehints branch a hint takes and how Union members are
sorted; compared by tie/props/c02.py with what coq/Model/Ty.v assumes (fail closed)."""
import json
import sys
from typing import Dict, List, Set, Tuple

import jsonargparse._typehints as th

sys.stdin.read()
NoneType = type(None)
origin = th.get_typehint_origin
res = {
    "leaf_types": sorted(t.__name__ for t in th.leaf_types),
    "list_is_sequence": origin(List[int]) in th.sequence_origin_types,
    "dict_is_mapping": origin(Dict[str, int]) in th.mapping_origin_types,
    "tuple_is_tuple_set": origin(Tuple[int, int]) in th.tuple_set_origin_types and origin(Tuple[int, ...]) in th.tuple_set_origin_types,
    "set_is_tuple_set": origin(Set[int]) in th.tuple_set_origin_types,
    "seq_or_map": [origin(List[int]) in th.sequence_or_mapping_origin_types, origin(Dict[str, int]) in th.sequence_or_mapping_origin_types,
                   origin(Tuple[int, int]) in th.sequence_or_mapping_origin_types, origin(Set[int]) in th.sequence_or_mapping_origin_types],
    "tuple_not_sequence": origin(Tuple[int, int]) not in th.sequence_origin_types and origin(Set[int]) not in th.sequence_origin_types,
}
print("\n" + json.dumps(res))

"""Line-coverage recorder for the implementation runners (used only by bin/anchor-cov, never by a registered check).

Put on PYTHONPATH of a runner process by tie.framework.impl_env when VERIF_LINECOV_DIR is set.  Uses
sys.monitoring (CPython 3.12): every line of a file under <VERIF_LINECOV_ROOT>/jsonargparse is reported once and
then disabled, so the overhead is negligible.  The set of (file, line) pairs is dumped at interpreter exit and
before os._exit (forked history children)."""
import atexit, json, os, sys

_dir = os.environ.get("VERIF_LINECOV_DIR")
_root = os.environ.get("VERIF_LINECOV_ROOT")
if _dir and _root and hasattr(sys, "monitoring"):
    _prefix = os.path.join(os.path.realpath(_root), "jsonargparse") + os.sep
    _hits = set()
    _mon = sys.monitoring
    _tool = _mon.COVERAGE_ID
    _skip = {}

    def _line(code, lineno):
        fn = code.co_filename
        ok = _skip.get(fn)
        if ok is None:
            ok = _skip[fn] = os.path.realpath(fn).startswith(_prefix)
        if ok:
            _hits.add((os.path.realpath(fn)[len(_prefix):], lineno))
        return _mon.DISABLE

    def _dump():
        if not _hits:
            return
        try:
            path = os.path.join(_dir, "%d_%d.json" % (os.getpid(), len(_hits)))
            with open(path, "w") as f:
                json.dump(sorted(_hits), f)
        except Exception:
            pass

    try:
        _mon.use_tool_id(_tool, "verif-linecov")
        _mon.register_callback(_tool, _mon.events.LINE, _line)
        _mon.set_events(_tool, _mon.events.LINE)
        atexit.register(_dump)
        _real_exit = os._exit

        def _exit(code=0):
            _dump()
            _real_exit(code)

        os._exit = _exit
    except Exception:
        pass

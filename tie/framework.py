"""Common machinery of /verif/bin/check.

One run of a property check =
  1. static gate over the Coq development (no Admitted/Axiom/..., no kernel switches)
  2. regen   : the property's translators rewrite coq/Gen/*.v from /repo's working tree
  3. prove   : full .vo build of Properties/<id>.v and Corr/<id>Judge.v; Print Assumptions of every
               property theorem, compared with the allow-list
  4. tie     : generated cases -> real implementation (fresh subprocess, PYTHONPATH=/repo) ->
               (input, observation) printed as Gallina -> coqc evaluates, inside Coq,
               model-agreement, guard class and spec-agreement, and prints three index lists
  5. verdict : see DESIGN.md 2.3 / 2.4
  6. evidence: evidence/<id>.json
"""
import hashlib
import importlib
import json
import os
import random
import re
import shutil
import subprocess
import sys
import tempfile
import time

ROOT = os.path.dirname(os.path.dirname(os.path.abspath(__file__)))
# VERIF_COQ_DIR: a private copy of the Coq tree (bin/seeded uses one per mutant so that regenerated coq/Gen files
# of a changed tree never leak into runs against /repo)
COQ = os.environ.get("VERIF_COQ_DIR") or os.path.join(ROOT, "coq")
REPO = os.environ.get("VERIF_REPO", "/repo")
PY = os.environ.get("VERIF_PY", "/venv/bin/python")
JOBS = int(os.environ.get("VERIF_JOBS", "16"))
# VERIF_OUT_DIR: where evidence/ and replays/ are written (default /verif; bin/seeded redirects the output of runs
# against a changed tree so that they never overwrite the evidence of the registered checks)
OUT = os.environ.get("VERIF_OUT_DIR") or ROOT
SHARD = 400

ALLOWED_AXIOMS = {
    # standard-library axioms that may appear; each is reported in the evidence when it does
    "FunctionalExtensionality.functional_extensionality_dep",
    "functional_extensionality_dep",
    "Eqdep.Eq_rect_eq.eq_rect_eq",
    "Classical_Prop.classic",
    "ProofIrrelevance.proof_irrelevance",
    "JMeq.JMeq_eq",
}

FORBIDDEN = re.compile(
    r"\b(Admitted|admit|Axiom|Axioms|Parameter|Parameters|Conjecture|Conjectures|Admit Obligations"
    r"|Unset Guard Checking|Unset Positivity Checking|Unset Universe Checking|bypass_check"
    r"|type-in-type|impredicative-set|native_compute)\b"
)


# ------------------------------------------------------------------------------------------------
# Gallina printing
# ------------------------------------------------------------------------------------------------
def g_str(s):
    """Python str -> Gallina `str` (list N of code points)."""
    if s == "":
        return "(@nil N)"
    return "[" + ";".join(str(ord(c)) for c in s) + "]%N"


def g_list(items, ty=None):
    items = list(items)
    if not items:
        return "(@nil %s)" % ty if ty else "[]"
    return "[" + "; ".join(items) + "]"


def g_nat(n):
    assert 0 <= n < 5000, "nat literal too large"
    return "%d%%nat" % n


def g_N(n):
    assert n >= 0
    return "%d%%N" % n


def g_Z(n):
    return "(%d)%%Z" % n


def g_bool(b):
    return "true" if b else "false"


def g_opt(x):
    return "None" if x is None else "(Some %s)" % x


def g_pair(a, b):
    return "(%s, %s)" % (a, b)


# ------------------------------------------------------------------------------------------------
# processes
# ------------------------------------------------------------------------------------------------
def impl_env(extra=None):
    env = dict(os.environ)
    env["PYTHONPATH"] = REPO
    env["PYTHONHASHSEED"] = "0"
    env["PYTHONDONTWRITEBYTECODE"] = "1"
    env["JSONARGPARSE_VERIF"] = "1"
    for k in list(env):
        if k.startswith("JSONARGPARSE_") and k != "JSONARGPARSE_VERIF":
            del env[k]
    env.pop("COLUMNS", None)
    if env.get("VERIF_LINECOV_DIR"):
        # bin/anchor-cov only: record which lines of the implementation the runners execute (tie/cov/sitecustomize.py)
        env["PYTHONPATH"] = REPO + os.pathsep + os.path.join(ROOT, "tie", "cov")
        env["VERIF_LINECOV_ROOT"] = REPO
    if extra:
        env.update(extra)
    return env


def run_impl(script, payload, timeout=900, extra_env=None, cwd=None):
    """Run tie/impl/<script> in a fresh interpreter against /repo; JSON in, JSON out."""
    path = os.path.join(ROOT, "tie", "impl", script)
    p = subprocess.run(
        [PY, "-B", path],
        input=json.dumps(payload).encode(),
        stdout=subprocess.PIPE,
        stderr=subprocess.PIPE,
        env=impl_env(extra_env),
        timeout=timeout,
        cwd=cwd or tempfile.gettempdir(),
    )
    if p.returncode != 0:
        raise ImplCrash("impl runner %s exited %d: %s" % (script, p.returncode, p.stderr.decode()[-2000:]))
    out = p.stdout.decode()
    # the runner prints its JSON answer on the last non-empty line
    line = [l for l in out.splitlines() if l.strip()][-1]
    return json.loads(line)


def run_impl_parallel(script, payloads, timeout=900, extra_env=None):
    """Several independent runner processes at once (payloads: list); results in order."""
    from concurrent.futures import ThreadPoolExecutor

    with ThreadPoolExecutor(max_workers=JOBS) as ex:
        futs = [ex.submit(run_impl, script, pl, timeout, extra_env) for pl in payloads]
        return [f.result() for f in futs]


class ImplCrash(Exception):
    pass


class TieBroken(Exception):
    """A translator refused its input (fail-closed) or its self-validation failed."""

    def __init__(self, msg, witness=None):
        super().__init__(msg)
        self.witness = witness


def sh(cmd, timeout=1800, cwd=None):
    p = subprocess.run(cmd, shell=True, stdout=subprocess.PIPE, stderr=subprocess.STDOUT, timeout=timeout, cwd=cwd)
    return p.returncode, p.stdout.decode(errors="replace")


# ------------------------------------------------------------------------------------------------
# static gate, build, assumptions
# ------------------------------------------------------------------------------------------------
def strip_comments(text):
    out, depth, i = [], 0, 0
    while i < len(text):
        if text.startswith("(*", i):
            depth += 1
            i += 2
        elif text.startswith("*)", i) and depth:
            depth -= 1
            i += 2
        else:
            if depth == 0:
                out.append(text[i])
            elif text[i] == "\n":
                out.append("\n")
            i += 1
    return "".join(out)


def static_gate():
    problems = []
    for d, _, fs in os.walk(COQ):
        for f in fs:
            if not f.endswith(".v"):
                continue
            p = os.path.join(d, f)
            if "/Corr/cases_" in p or "/Corr/assum_" in p:
                continue
            text = strip_comments(open(p).read())
            stack = []
            for ln, line in enumerate(text.splitlines(), 1):
                m = FORBIDDEN.search(line)
                if m:
                    problems.append("%s:%d: forbidden token %s" % (p, ln, m.group(1)))
                ms = re.match(r"\s*Section\s+(\w+)\s*\.", line)
                if ms:
                    stack.append(ms.group(1))
                me = re.match(r"\s*End\s+(\w+)\s*\.", line)
                if me and stack and stack[-1] == me.group(1):
                    stack.pop()
                if not stack and re.match(r"\s*(Variable|Variables|Hypothesis|Hypotheses|Context)\b", line):
                    problems.append("%s:%d: %s outside a section" % (p, ln, line.strip()[:40]))
    for f in ("_CoqProject", "Makefile.local"):
        p = os.path.join(COQ, f)
        if os.path.exists(p) and re.search(r"type-in-type|impredicative-set|bypass", open(p).read()):
            problems.append("%s: kernel switch" % p)
    return problems


def build(targets):
    t0 = time.time()
    rc, out = sh(os.path.join(ROOT, "bin", "build-coq") + " " + " ".join(targets), timeout=2400)
    return rc == 0, out, time.time() - t0


def theorem_names(prop):
    text = strip_comments(open(os.path.join(COQ, "Properties", prop + ".v")).read())
    return re.findall(r"^\s*(?:Theorem|Lemma|Corollary|Example)\s+(\w+)", text, re.M)


def check_assumptions(prop):
    """Print Assumptions for every theorem of Properties/<prop>.v in one coqc call."""
    names = theorem_names(prop)
    src = os.path.join(COQ, "Corr", "assum_%s.v" % prop)
    with open(src, "w") as f:
        f.write("From JV Require Import Properties.%s.\n" % prop)
        for n in names:
            f.write('Goal True. idtac "@@THM %s". exact I. Qed.\nPrint Assumptions %s.\n' % (n, n))
    rc, out = sh("cd %s && timeout 600 coqc -Q . JV Corr/assum_%s.v" % (COQ, prop))
    for ext in (".vo", ".vok", ".vos", ".glob"):
        try:
            os.remove(src[:-2] + ext)
        except OSError:
            pass
    try:
        os.remove(os.path.join(COQ, "Corr", ".assum_%s.aux" % prop))
    except OSError:
        pass
    res = {}
    if rc != 0:
        return names, {n: ["<Print Assumptions failed: %s>" % out[-300:]] for n in names}, False
    blocks = out.split("@@THM ")[1:]
    ok = True
    for b in blocks:
        lines = b.splitlines()
        name = lines[0].strip()
        body = "\n".join(lines[1:])
        if "Closed under the global context" in body:
            res[name] = []
        else:
            axs = re.findall(r"^([A-Za-z_][\w.']*)\s*:", body, re.M)
            res[name] = axs
            for a in axs:
                if a not in ALLOWED_AXIOMS and a.split(".")[-1] not in ALLOWED_AXIOMS:
                    ok = False
    for n in names:
        if n not in res:
            res[n] = ["<no output>"]
            ok = False
    return names, res, ok


# ------------------------------------------------------------------------------------------------
# evaluating cases inside Coq
# ------------------------------------------------------------------------------------------------
_BLOCK = re.compile(r"=\s*(.*?)\n\s*:\s", re.S)


def _parse_blocks(out):
    blocks = _BLOCK.findall(out + "\n : ")
    return [[int(x) for x in re.findall(r"\d+", re.sub(r"%\w+", "", b))] for b in blocks]


def coq_judge(prop, imports, terms, judge="judge", tag="q"):
    """terms: list of Gallina `case` terms. Returns (bad_model, bad_spec_in_guard, bad_spec_outside)
    as lists of 0-based indices (the last with finding class)."""
    work = os.path.join(COQ, "Corr")
    shards = [terms[i : i + SHARD] for i in range(0, len(terms), SHARD)]
    names = []
    for k, sh_terms in enumerate(shards):
        name = "cases_%s_%s_%d_%d" % (prop, tag, os.getpid(), k)
        names.append(name)
        with open(os.path.join(work, name + ".v"), "w") as f:
            f.write(imports + "\n")
            f.write("Definition cases := [\n" + ";\n".join(sh_terms) + "\n].\n")
            f.write("Definition R := Eval vm_compute in (%s cases).\n" % judge)
            f.write("Eval vm_compute in (fst (fst R)).\nEval vm_compute in (snd (fst R)).\nEval vm_compute in (snd R).\n")
    bad_model, bad_in, bad_out = [], [], []
    if not names:
        return bad_model, bad_in, bad_out
    from concurrent.futures import ThreadPoolExecutor

    def one(name):
        return sh("cd %s && timeout 900 coqc -Q . JV Corr/%s.v" % (COQ, name), timeout=1000)

    with ThreadPoolExecutor(max_workers=JOBS) as ex:
        results = list(ex.map(one, names))
    try:
        for k, (rc, out) in enumerate(results):
            if rc != 0:
                raise CoqEvalError("coqc failed on %s: %s" % (names[k], out[-1500:]))
            blocks = _parse_blocks(out)
            if len(blocks) != 3:
                raise CoqEvalError("unexpected coqc output for %s: %s" % (names[k], out[-800:]))
            base = k * SHARD
            bad_model += [base + i - 1 for i in blocks[0]]
            bad_in += [base + i - 1 for i in blocks[1]]
            pairs = blocks[2]
            bad_out += [(base + pairs[j] - 1, pairs[j + 1]) for j in range(0, len(pairs), 2)]
    finally:
        for name in names:
            for ext in (".v", ".vo", ".vok", ".vos", ".glob"):
                try:
                    os.remove(os.path.join(work, name + ext))
                except OSError:
                    pass
            try:
                os.remove(os.path.join(work, "." + name + ".aux"))
            except OSError:
                pass
    return bad_model, bad_in, bad_out


class CoqEvalError(Exception):
    pass


# ------------------------------------------------------------------------------------------------
# known findings
# ------------------------------------------------------------------------------------------------
def load_known_findings(prop):
    """open findings for this property: key -> description. Read-only at run time."""
    res = {}
    files = [os.path.join(ROOT, "KNOWN_FINDINGS")]
    d = os.path.join(ROOT, "known_findings")
    if os.path.isdir(d):
        files += [os.path.join(d, f) for f in sorted(os.listdir(d)) if f.endswith(".txt")]
    for p in files:
        if not os.path.exists(p):
            continue
        for line in open(p):
            line = line.strip()
            if not line.startswith("open:"):
                continue
            m = re.match(r"open:\s+property=(\w+)\s+key=(\S+)\s+(.*)$", line)
            if m and m.group(1) == prop:
                res[m.group(2)] = m.group(3)
    return res


# ------------------------------------------------------------------------------------------------
# scratch
# ------------------------------------------------------------------------------------------------
def scratch_dir(prefix):
    base = os.environ.get("VERIF_SCRATCH", tempfile.gettempdir())
    return tempfile.mkdtemp(prefix="jv_%s_" % prefix, dir=base)


# ------------------------------------------------------------------------------------------------
# the driver
# ------------------------------------------------------------------------------------------------
class Run:
    def __init__(self, prop, tier, seed):
        self.prop, self.tier, self.seed = prop, tier, seed
        self.t0 = time.time()
        self.lines = []
        self.violations = 0
        self.notes = []

    def say(self, s):
        print(s, flush=True)


def _acyclic(obj, seen=()):
    """JSON-able copy of obj in which a container met again on its own path is replaced by a marker (observations
    may hold self-referential values, e.g. a YAML alias cycle)."""
    if isinstance(obj, (dict, list, tuple)):
        if any(obj is s for s in seen):
            return "<cycle>"
        seen = seen + (obj,)
        if isinstance(obj, dict):
            return {str(k): _acyclic(v, seen) for k, v in obj.items()}
        return [_acyclic(v, seen) for v in obj]
    return obj


def write_replay(prop, seed, n, payload):
    d = os.path.join(OUT, "replays")
    os.makedirs(d, exist_ok=True)
    path = os.path.join(d, "%s-%s-%d.json" % (prop, seed, n))
    with open(path, "w") as f:
        json.dump(_acyclic(payload), f, indent=1, sort_keys=True, default=str)
    return path


def write_evidence(prop, tier, seed, coverage, assumptions, wall, violations):
    d = os.path.join(OUT, "evidence")
    os.makedirs(d, exist_ok=True)
    ev = {
        "property_id": prop,
        "tier": tier,
        "seed": seed,
        "level": "proof",
        "coverage": coverage,
        "assumptions": assumptions,
        "wall_s": round(wall, 2),
        "violations": violations,
    }
    tmp = os.path.join(d, prop + ".json.tmp")
    with open(tmp, "w") as f:
        json.dump(_acyclic(ev), f, indent=1, sort_keys=True, default=str)
    os.replace(tmp, os.path.join(d, prop + ".json"))


def judge_cases(mod, cases, obs, tag="q"):
    terms = [mod.term(c, o) for c, o in zip(cases, obs)]
    return coq_judge(mod.PROP, mod.IMPORTS, terms, getattr(mod, "JUDGE", "judge"), tag)


def shrink(mod, case, still_fails, rounds=12):
    """Greedy shrinking: mod.shrink(case) yields smaller candidates; still_fails(list of cases) ->
    list of bool (evaluated as one batch against implementation and Coq)."""
    if not hasattr(mod, "shrink"):
        return case
    for _ in range(rounds):
        cands = list(mod.shrink(case))[:60]
        if not cands:
            break
        flags = still_fails(cands)
        nxt = next((c for c, f in zip(cands, flags) if f), None)
        if nxt is None:
            break
        case = nxt
    return case


def main(argv=None):
    """Runs the check; an internal failure of the machinery itself (a harness or framework exception) is never a silent
    crash: the property is then not shown to hold, so it is reported as a violation without failing input, naming the
    exception in the replay file."""
    try:
        return _main(argv)
    except SystemExit:
        raise
    except BaseException as ex:  # noqa: BLE001
        import traceback

        if isinstance(ex, KeyboardInterrupt):
            raise
        args = list(sys.argv[1:] if argv is None else argv)
        prop = next((a for a in args if re.fullmatch(r"C\d\d", a)), "C??")
        seed = int(os.environ.get("VERIF_SEED", "20260926"))
        tier = os.environ.get("VERIF_TIER", "quick")
        if "--tier" in args:
            tier = args[args.index("--tier") + 1]
        tb = traceback.format_exc()
        path = write_replay(prop, seed, 0, {"property": prop, "kind": "check-machinery-failed", "seed": seed, "tier": tier,
                                            "broken": {"stage": "harness", "exception": repr(ex), "traceback": tb[-4000:]}})
        try:
            write_evidence(prop, tier, seed, {"checker_cmd": "bin/check %s" % prop, "trusted_base": [], "obligations": 0, "discharged": 0,
                                              "evaluations": 0, "distinct_nontrivial": 0, "rule": "the check's own machinery raised %r before a verdict" % ex,
                                              "samples": [tb[-600:]], "traces_validated_against_impl": 0, "exhaustive": False}, [], 0.0, 1)
        except Exception:
            pass
        print("VIOLATION property=%s replay=%s no-failing-input-found" % (prop, path))
        return 1


def _main(argv=None):
    import argparse

    ap = argparse.ArgumentParser()
    ap.add_argument("prop")
    ap.add_argument("--tier", default=os.environ.get("VERIF_TIER", "quick"), choices=["quick", "thorough"])
    ap.add_argument("--seed", type=int, default=int(os.environ.get("VERIF_SEED", "20260926")))
    ap.add_argument("--replay")
    ap.add_argument("--skip-proofs", action="store_true", help="development aid: correspondence only")
    args = ap.parse_args(argv)
    prop = args.prop
    sys.path.insert(0, ROOT)
    mod = importlib.import_module("tie.props." + prop.lower())
    if args.replay:
        return replay(mod, args.replay)
    t0 = time.time()
    seed, tier = args.seed, args.tier
    rng = random.Random(seed)
    violations = []  # (replay payload, suffix)
    known_lines = []
    trusted = list(getattr(mod, "TRUSTED", []))
    cov = {
        "checker_cmd": "bin/build-coq Properties/%s.vo Corr/%sJudge.vo (coqc 8.16.1, full .vo) + Print Assumptions per theorem; "
        "correspondence: coqc + vm_compute over generated Corr/cases_*.v" % (prop, prop),
        "trusted_base": trusted,
    }

    # 1. static gate
    gate = static_gate()
    cov["static_gate"] = "clean" if not gate else gate[:10]

    # 2. regen
    tie_broken = []
    gen_info = {}
    if hasattr(mod, "translate"):
        try:
            gen_info = mod.translate() or {}
        except TieBroken as e:
            tie_broken.append({"stage": "translator", "reason": str(e), "witness": e.witness})
    cov["translators"] = gen_info

    # 3. prove
    names = theorem_names(prop)
    cov["obligations"] = len(names)
    axioms = {}
    proofs_ok = True
    build_log = ""
    if not tie_broken or True:
        ok, build_log, bt = build(["Properties/%s.vo" % prop, "Corr/%sJudge.vo" % prop])
        cov["build_s"] = round(bt, 1)
        if not ok:
            proofs_ok = False
        else:
            _, axioms, aok = check_assumptions(prop)
            if not aok:
                proofs_ok = False
    discharged = len([n for n in names if n in axioms and (axioms[n] == [] or all(a in ALLOWED_AXIOMS or a.split(".")[-1] in ALLOWED_AXIOMS for a in axioms[n]))]) if proofs_ok or axioms else 0
    if gate:
        proofs_ok = False
        discharged = 0
    cov["discharged"] = discharged
    cov["theorems"] = {n: ("closed under the global context" if axioms.get(n) == [] else axioms.get(n, "not checked")) for n in names}
    if tier == "thorough" and proofs_ok and os.environ.get("VERIF_COQCHK", "1") == "1":
        rc, out = sh("cd %s && timeout 1500 coqchk -silent -o -Q . JV JV.Properties.%s 2>&1 | tail -40" % (COQ, prop), timeout=1600)
        cov["coqchk"] = out[-1800:]
        if rc != 0 and "Modules were successfully checked" not in out:
            cov["coqchk_rc"] = rc

    # 4. correspondence
    judge_available = os.path.exists(os.path.join(COQ, "Corr", "%sJudge.vo" % prop))
    cases, obs = [], []
    bad_model = bad_in = bad_out = []
    corr_error = None
    if judge_available:
        try:
            corpus = load_corpus(mod)
            cases = corpus + mod.generate(rng, tier)
            obs = mod.observe(cases)
            bad_model, bad_in, bad_out = judge_cases(mod, cases, obs)
        except (ImplCrash, CoqEvalError, TieBroken) as e:
            corr_error = "%s: %s" % (type(e).__name__, e)
    else:
        corr_error = "judge not built:\n" + build_log[-1500:]

    known = load_known_findings(prop)
    classes = getattr(mod, "FINDING_CLASSES", {})
    nrep = [0]

    def add_violation(kind, payload, suffix=""):
        nrep[0] += 1
        payload = dict(payload, property=prop, kind=kind, seed=seed, tier=tier)
        path = write_replay(prop, seed, nrep[0], payload)
        violations.append("VIOLATION property=%s replay=%s%s" % (prop, path, suffix))

    def fails_like(kind):
        def f(cands):
            o = mod.observe(cands)
            bm, bi, bo = judge_cases(mod, cands, o, tag="s")
            bad = set(bi) | {i for i, _ in bo}
            if kind == "model":
                bad = set(bm)
            return [i in bad for i in range(len(cands))]

        return f

    if corr_error is None:
        # contradictions of the spec inside the guard: the theorem says these cannot happen if the
        # model were faithful => property fails on the implementation for this input
        spec_bad_in = sorted(set(bad_in))
        for i in spec_bad_in[:3]:
            c = shrink(mod, cases[i], fails_like("spec"))
            o = mod.observe([c])[0]
            add_violation("property-fails-on-implementation", {"case": c, "observed": o, "explain": mod.describe(c, o)})
        # outside the guard
        seen_known = {}
        for i, k in bad_out:
            key = classes.get(k)
            if key is not None and key in known:
                seen_known.setdefault(key, i)
            elif i not in spec_bad_in[:3]:
                if len([v for v in violations]) < 5:
                    c = shrink(mod, cases[i], fails_like("spec"))
                    o = mod.observe([c])[0]
                    add_violation("property-fails-on-implementation (outside the proved guard, not a listed finding)",
                                  {"case": c, "observed": o, "finding_class": key, "explain": mod.describe(c, o)})
        for key, i in seen_known.items():
            known_lines.append("KNOWN-FINDING: property=%s key=%s %s" % (prop, key, known[key]))
        # model disagreement with spec agreement: tie broken, no failing input among these
        model_only = [i for i in bad_model if i not in set(bad_in) and i not in {j for j, _ in bad_out}]
        if model_only and not violations:
            tie_broken.append({"stage": "correspondence", "reason": "model and implementation differ on %d cases that the spec accepts" % len(model_only),
                               "witness": [mod.describe(cases[i], obs[i]) for i in model_only[:3]]})
    else:
        tie_broken.append({"stage": "correspondence", "reason": corr_error})

    # 5. broken proof / tie: search for a failing input
    if (not proofs_ok or tie_broken) and not violations:
        found = None
        if hasattr(mod, "search") and judge_available and corr_error is None:
            try:
                found = mod.search(random.Random(seed + 1), tier, tie_broken)
            except Exception as e:  # search is best effort
                cov["search_error"] = repr(e)
        elif judge_available and corr_error is None:
            try:
                extra = mod.generate(random.Random(seed + 1), "thorough" if tier == "quick" else "thorough")
                eo = mod.observe(extra)
                bm, bi, bo = judge_cases(mod, extra, eo, tag="x")
                bad = sorted(set(bi) | {i for i, k in bo if classes.get(k) not in known})
                if bad:
                    found = {"case": extra[bad[0]], "observed": eo[bad[0]], "explain": mod.describe(extra[bad[0]], eo[bad[0]])}
            except Exception as e:
                cov["search_error"] = repr(e)
        broken = {
            "proofs_ok": proofs_ok,
            "static_gate": gate[:5],
            "build_log_tail": build_log[-1200:] if not proofs_ok else "",
            "axioms": {k: v for k, v in axioms.items() if v},
            "tie_broken": tie_broken,
        }
        if found:
            add_violation("failing-input-after-broken-proof-or-tie", dict(found, broken=broken))
        else:
            add_violation("proof-or-tie-no-longer-checks", {"broken": broken}, " no-failing-input-found")

    # 6. evidence
    keys = set()
    for c, o in zip(cases, obs):
        k = mod.nontrivial_key(c, o)
        if k is not None:
            keys.add(k if isinstance(k, (str, int, tuple)) else json.dumps(k, sort_keys=True))
    hist = {}
    if hasattr(mod, "category"):
        for c, o in zip(cases, obs):
            cat = mod.category(c, o)
            hist[cat] = hist.get(cat, 0) + 1
    cov.update(
        {
            "evaluations": len(cases),
            "distinct_nontrivial": len(keys),
            "rule": getattr(mod, "RULE", ""),
            "samples": [mod.describe(c, o) for c, o in list(zip(cases, obs))[:: max(1, len(cases) // 4)][:5]] or ["<none>"],
            "traces_validated_against_impl": len(cases) - len(bad_model) if corr_error is None else 0,
            "model_disagreements": len(bad_model),
            "spec_failures_in_guard": len(bad_in),
            "spec_failures_outside_guard": len(bad_out),
            "known_findings_seen": [l.split(" ", 2)[2] for l in known_lines],
            "input_distribution": hist,
            "tie_broken": tie_broken,
            "exhaustive": bool(getattr(mod, "EXHAUSTIVE", {}).get(tier, False)),
        }
    )
    if hasattr(mod, "extra_coverage"):
        cov.update(mod.extra_coverage(tier))
    assumptions = list(getattr(mod, "ASSUMPTIONS", []))
    write_evidence(prop, tier, seed, cov, assumptions, time.time() - t0, len(violations))
    for l in known_lines:
        print(l)
    for v in violations:
        print(v)
    print("%s %s: %d theorems (%d discharged), %d cases, %d model disagreements, %d spec failures, %.1fs"
          % (prop, tier, len(names), discharged, len(cases), len(bad_model), len(bad_in) + len(bad_out), time.time() - t0))
    return 1 if violations else 0


def load_corpus(mod):
    d = os.path.join(ROOT, "corpus", mod.PROP)
    res = []
    if os.path.isdir(d):
        for f in sorted(os.listdir(d)):
            if f.endswith(".json"):
                res.append(json.load(open(os.path.join(d, f)))["case"])
    return res


def replay(mod, path):
    payload = json.load(open(path))
    if "case" not in payload:
        print("replay file names a broken proof/tie, not an input:")
        print(json.dumps(payload.get("broken"), indent=1)[:3000])
        return 1
    c = payload["case"]
    o = mod.observe([c])[0]
    bm, bi, bo = judge_cases(mod, [c], [o], tag="r")
    print(json.dumps(mod.describe(c, o), indent=1, default=str))
    print("model agrees:", not bm, "| spec holds:", not (bi or bo))
    return 1 if (bi or bo) else 0

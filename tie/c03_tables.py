"""C03 — committed tables of the exception-flow translator (tie/translate_exn_ir.py).

Everything the IR says about code OUTSIDE the followed closure, and every place where the translator is told
something it cannot see syntactically, is in this file, with the reason. Exception classes are qualified names
of live classes; "raises C" always means "C or any subclass of C that is in the class universe" (the translator
emits one raise site per concrete class, so a handler for a subclass only removes that subclass).

"Documented failure classes" = what the callee's documentation says it raises for bad *data*. Exceptions Python
raises implicitly for bad *types* at any expression (AttributeError on a missing method, TypeError on a wrong
operand, KeyError/IndexError of a builtin container, RecursionError, MemoryError) are NOT in the IR; they are
covered only by the fuzz half of the check (tie/props/c03.py) — except where the fuzz has found one, in which
case the site is listed in IMPLICIT_SITES so that the model reproduces the observed behaviour.
"""

OS = "builtins.OSError"
VE = "builtins.ValueError"
TE = "builtins.TypeError"
AE = "builtins.AttributeError"
IE = "builtins.ImportError"
EXIT0 = "exit.SystemExit0"
EXIT2 = "exit.SystemExit2"
ARGERR = "argparse.ArgumentError"

# -----------------------------------------------------------------------------------------------------------
# builtins that do not raise a documented exception on data (only implicit type errors)
# -----------------------------------------------------------------------------------------------------------
NO_RAISE_BUILTINS = {
    "isinstance", "issubclass", "len", "str", "repr", "list", "dict", "set", "frozenset", "tuple", "type", "hasattr",
    "callable", "enumerate", "range", "zip", "sorted", "reversed", "any", "all", "vars", "super", "iter", "sum", "min",
    "max", "bool", "id", "hash", "globals", "setattr", "delattr", "print", "filter", "map", "abs", "format", "object",
    "ValueError", "TypeError", "KeyError", "ImportError", "AttributeError", "Exception",  # constructing an exception
}

# -----------------------------------------------------------------------------------------------------------
# external callees: dotted name (optionally "/<number of arguments>") -> (exception classes, reason)
# -----------------------------------------------------------------------------------------------------------
EXTERNAL = {
    "builtins.getattr/2": ([], "getattr without default on attributes the code has just tested/created (AttributeError is an implicit-class exception); the one data-dependent use, import_object, is in DYNAMIC"),
    "builtins.getattr/3": ([], "getattr with default"),
    "builtins.next/1": ([], "next(iter(x)) after an explicit emptiness/length test at all three call sites"),
    "builtins.next/2": ([], "next with default"),
    "builtins.int": ([VE, TE], "int(text)"),
    "builtins.float": ([VE, TE], "float(text)"),
    "builtins.__import__": ([IE + "+"], "import of a user-named module; exceptions raised by the imported module's own code are out of scope"),
    "builtins.open": ([OS + "+", VE], "open(): OSError family; ValueError for an embedded NUL in the name"),
    "importlib.import_module": ([IE + "+"], "as __import__"),
    "importlib.util.find_spec": ([], "optional-package probe with a constant name"),
    "yaml.load": (["yaml.error.YAMLError+"], "PyYAML: every scanner/parser/composer/constructor error derives from YAMLError"),
    "json.loads": (["json.decoder.JSONDecodeError"], "json: JSONDecodeError (a ValueError)"),
    "json.dumps": ([], "serialising values that came out of a loader"),
    "yaml.dump": ([], "--print_config: the dict was reduced to plain data by _dump_cleanup_actions before"),
    "os.stat": ([VE], "stat() after isfile/isdir/access succeeded on the same path: OSError only by a concurrent change (out of scope); ValueError for an embedded NUL"),
    "os.access": ([VE], "access() returns False on OS errors; ValueError for an embedded NUL"),
    "os.chdir": ([], "chdir into the directory of a file that was just opened / back to the previous cwd; a directory removed concurrently is out of scope"),
    "os.getcwd": ([OS + "+"], "fails with FileNotFoundError (an OSError) when the working directory of the process has been removed"),
    "os.fspath": ([], "argument type was checked by isinstance just before"),
    "os.getenv": ([], ""), "os.environ.get": ([], ""),
    "os.path.abspath": ([], "pure (getcwd failure is accounted at os.getcwd)"),
    "os.path.basename": ([], "pure"), "os.path.dirname": ([], "pure"), "os.path.expanduser": ([], "pure"),
    "os.path.isabs": ([], "pure"), "os.path.join": ([], "pure"), "os.path.realpath": ([], "non-strict realpath does not raise OSError"),
    "os.path.exists": ([], "swallows OSError and ValueError"), "os.path.lexists": ([], "swallows OSError and ValueError"),
    "os.path.islink": ([], "swallows OSError and ValueError"),
    "os.path.isdir": ([], "swallows OSError and ValueError"), "os.path.isfile": ([], "swallows OSError and ValueError"),
    "os.linesep.join": ([], "str.join"),
    "stat.S_ISFIFO": ([], "pure"),
    "glob.glob": ([], "returns [] for unreadable directories"),
    "re.compile": ([], "constant patterns"), "re.sub": ([], "constant patterns"),
    "copy.deepcopy": ([], "values that came out of a loader / parser defaults"),
    "collections.Counter": ([], ""), "collections.OrderedDict": ([], ""), "collections.defaultdict": ([], ""),
    "types.MappingProxyType": ([], ""),
    "inspect.isclass": ([], "predicate"), "inspect.isabstract": ([], "predicate"), "inspect.isfunction": ([], "predicate"),
    "inspect.ismethod": ([], "predicate"), "inspect.getmro": ([], "on a class"), "inspect.getmodule": ([], ""),
    "inspect.stack": ([], ""), "inspect.getattr_static": ([], "protocol check on names taken from dir()"),
    "inspect.getattr_static/3": ([], "with default"), "inspect.getmembers": ([], ""),
    "inspect.signature": ([], "only applied to the bound method self._check_type"),
    "dataclasses.is_dataclass": ([], "predicate"), "dataclasses.asdict": ([], ""),
    "attrs.has": ([], "predicate"), "attrs.asdict": ([], ""),
    "io.StringIO": ([], ""),
    "sys.stderr.write": ([], "stderr is open in the harness; a closed stderr is out of scope"),
    "sys.stdout.write": ([], "as stderr"),
    "sys.stdin.read": ([VE, OS + "+"], "read of a closed/invalid stdin: ValueError('I/O operation on closed file') or OSError"),
    "textwrap.dedent": ([], ""), "textwrap.fill": ([], ""), "textwrap.indent": ([], ""),
    "warnings.warn": ([], "warnings are not turned into errors in the harness"),
    "logging.getLogger": ([], ""), "logging.StreamHandler": ([], ""), "logging.Formatter": ([], ""),
    "argparse.ArgumentError": ([], "constructor of the exception object"),
    "argparse.Namespace": ([], "constructor"),
    "argparse.Namespace.__init__": ([], "sets attributes"),
    "argparse.ArgumentParser.exit/0": ([EXIT0 + "!"], "ArgumentParser.exit() -> sys.exit(0); never returns"),
    "argparse.ArgumentParser.exit/1": ([EXIT2 + "!"], "never returns; the only one-argument call in the package is self.exit(2) in ArgumentParser.error (checked by the translator)"),
    "argparse.ArgumentParser._error_handler": ([], "deprecated error_handler hook: None unless the user sets one (not set in the harness)"),
    "argparse.ArgumentParser.format_help": ([], "help formatting is not modelled (DESIGN 11)"),
    "argparse.ArgumentParser._parse_optional": ([ARGERR], "argparse: ambiguous option"),
    "pydantic.TypeAdapter": ([], "pydantic validators not modelled (DESIGN 11)"),
    "pydantic.create_model": ([], "pydantic models not modelled (DESIGN 11)"),
    "typing.get_type_hints": ([], "only reached for callables returning classes; failure is logged by the caller"),
    "ctor:_typehints.NestedArg": ([], "namedtuple"),
}

# external methods on values of builtin/library types, resolved by method NAME when the receiver is not
# self/cls/a class/a module. If a package class defines a method of the same name, the IR takes the Choice of
# the package methods and this summary.
_NR = ([], "str/list/dict/set/ContextVar/logger method without a documented data-dependent failure")
EXTERNAL_METHODS = {m: _NR for m in """
    add append clear copy count debug error warning info endswith startswith extend insert intersection isdigit isidentifier join
    lower upper lstrip rstrip strip replace rfind rsplit split splitlines setdefault sort union difference_update
    set reset addHandler setFormatter setLevel close seek items keys values get update format encode decode title
    __subclasses__ add_implicit_resolver isalpha isalnum find partition rpartition
""".split()}
EXTERNAL_METHODS.update({
    "index": ([VE], "list.index / str.index"),
    "remove": ([], "list.remove/set.remove of an element found by the enclosing loop/test"),
    "pop": ([], "dict.pop/list.pop on keys checked before (KeyError/IndexError are implicit-class exceptions)"),
    "read": ([OS + "+", "builtins.UnicodeDecodeError"], "file read: OSError family, UnicodeDecodeError (a ValueError) for undecodable bytes, ValueError on a closed file"),
    "readlines": ([OS + "+", "builtins.UnicodeDecodeError"], "as read"),
    "match": ([], "compiled constant pattern"), "sub": ([], "compiled constant pattern"),
    "exit/0": ([EXIT0 + "!"], "parser.exit() -> SystemExit(0); never returns"),
    "head": ([OS + "+"], "requests.head: RequestException derives from OSError"),
    "raise_for_status": ([OS + "+"], "requests HTTPError derives from OSError"),
    "model_dump": ([], "pydantic not modelled"), "dict": ([], "pydantic not modelled"),
    "validate_python": ([VE], "pydantic ValidationError derives from ValueError"),
    "default_factory": ([], "dataclass default factories are user code, run at declaration time"),
})

# external context managers
EXTERNAL_CMS = {
    "open": ([OS + "+", VE], "open(): OSError family; ValueError for an embedded NUL"),
    "handle": ([], "fsspec handle (fsspec paths are not modelled, DESIGN 11)"),
    "fsspec.open": ([OS + "+"], "fsspec paths are not modelled; documented failure class only"),
}

# external callees that call back into the package: name -> {"raises": [...], "calls": [...], "why": ...}
# "*.m@Base": method m of every package class that has a base class called Base (outside BOUNDARY_MODULES)
CALLBACKS = {
    "argparse.ArgumentParser._parse_known_args": {
        "raises": [ARGERR, EXIT0],
        "calls": ["*.__call__@Action", "_actions._ActionSubCommands.__call__", "_core.ArgumentParser._parse_optional",
                  "_core.ArgumentParser.error", "_core.ArgumentParser.format_help"],
        "why": "argparse's option loop: raises argparse.ArgumentError (unknown/ambiguous option, missing value, type= "
               "callables failing with ArgumentTypeError/TypeError/ValueError are wrapped by argparse._get_value); calls "
               "action(parser, namespace, values, option_string) for every matched action WITHOUT any wrapping; calls "
               "self._parse_optional, self.error (required/exclusive groups), and for -h print_help()+exit(0)",
    },
    "argparse.ArgumentParser.print_usage": {
        "raises": [], "calls": ["_core.ArgumentParser.get_default"], "catches": ["jsonargparse._namespace.NSKeyError"], "relabel": True,
        "why": "argparse formats the usage with the parser's formatter; DefaultHelpFormatter._format_usage (module _formatters, not "
               "followed) calls parser.get_default(key) for every required key inside `try ... except NSKeyError`; get_default runs "
               "get_defaults(), which re-reads the default config files. Whatever escapes is re-labelled as a raise site of "
               "ArgumentParser.print_usage so that this path (an exception out of the error channel itself) is told apart from the "
               "ordinary raise sites",
    },
    "argparse._ActionsContainer.add_argument": {
        "raises": [VE, TE], "calls": [],
        "why": "declaration-time API; only reached through nested parsers built from signatures (behind the boundary)",
    },
}

# calls of values: "<function>:<callee source text>" -> {"calls": [package functions], "raises": [...], "why"}
DYNAMIC = {
    "_loaders_dumpers.load_value:loader": {
        "calls": ["_loaders_dumpers.yaml_load", "_loaders_dumpers.json_load"], "raises": [],
        "why": "loaders[mode] with mode = parser_mode: yaml (the default) or json. The handler expressions get_loader_exceptions() "
               "are evaluated for yaml; toml/jsonnet/omegaconf loaders are outside the statement",
    },
    "_loaders_dumpers.json_load:json.loads": {
        "calls": [], "raises": [],
        "why": "parser_mode='json': the documented failure class JSONDecodeError is what get_loader_exceptions() returns in that mode, "
               "i.e. it is caught exactly where YAMLError is caught in the yaml-mode IR; it is therefore not raised as a separate class "
               "here (the handlers of this IR are the yaml ones). Anything else json.loads raises is an IMPLICIT_SITES matter"},
    "_core.ArgumentParser._apply_actions:skip_fn": {"calls": [], "raises": [], "why": "only passed by add_sub_defaults: a lambda testing isinstance"},
    "_core.ArgumentParser._check_value_key:action.type": {
        "calls": [], "raises": [VE, TE, "argparse.ArgumentTypeError"],
        "why": "plain argparse type= callable: the argparse contract is ValueError/TypeError/ArgumentTypeError",
    },
    "_namespace.Namespace.get_sorted_keys:key_filter": {"calls": ["_namespace.is_meta_key"], "raises": [], "why": "default argument"},
    "_namespace.recreate_branches:type(data)": {"calls": [], "raises": [], "why": "list/tuple constructor"},
    "_util.parse_value_or_config:NestedArg": {"calls": [], "raises": [], "why": "namedtuple constructor"},
    "_typehints.ActionTypeHint.__call__:NestedArg": {"calls": [], "raises": [], "why": "namedtuple constructor"},
    "typing.RegisteredType.deserializer:self.base_deserializer": {
        "calls": [], "raises": [VE, TE, AE],
        "why": "registered deserializer: by the contract of register_type it raises only its declared deserializer_exceptions "
               "(default ValueError, TypeError, AttributeError); a deserializer breaking its contract is out of scope",
    },
    "typing.RegisteredType.is_value_of_type:self.type_check": {"calls": [], "raises": [], "why": "isinstance-like predicate"},
    "typing.get_registered_type:registration_pending.pop(import_path)": {"calls": [], "raises": [], "why": "deferred registration of stdlib types"},
    "_typehints.adapt_typehints:cast": {"calls": [], "raises": [VE, TE], "why": "list/tuple/set/int/float constructor on an adapted value"},
    "_typehints.adapt_typehints:typehint": {"calls": [], "raises": [], "why": "only with instantiate_classes=True, which no parse method passes"},
    "_typehints.adapt_typehints:registered_type.serializer": {"calls": [], "raises": [], "why": "serialize=True only (dump), not on parse paths"},
    "_typehints.ActionTypeHint.is_subclass_typehint:test": {"calls": [], "raises": [], "why": "all/any"},
    "_typehints.ActionTypeHint.get_class_parser:type(parser)": {"calls": ["_core.ArgumentParser.__init__"], "raises": [], "why": "nested ArgumentParser"},
    "_loaders_dumpers.dump_using_format:dumpers[dump_format]": {
        "calls": ["_loaders_dumpers.yaml_dump", "_loaders_dumpers.json_compact_dump", "_loaders_dumpers.json_indented_dump"],
        "raises": [], "why": "--print_config output: dumpers of the built-in formats",
    },
    "_actions._ActionHelpClassPath.print_help:type(parser)": {"calls": [], "raises": [VE], "why": "ArgumentParser(description=...) for --*.help"},
    "_actions._ActionHelpClassPath.__call__:type(self)": {"calls": [], "raises": [], "why": "declaration time (len(args)==0 branch)"},
    "_typehints.subclass_spec_as_namespace:NestedArg": {"calls": [], "raises": [], "why": "namedtuple constructor"},
    "_util.import_object:getattr": {"calls": [], "raises": [AE], "why": "getattr(module, user-given name) without default"},
    "_typehints.adapt_typehints:ActionTypeHint.get_class_parser": {
        "calls": [], "raises": [],
        "why": "dataclass-like branch: the argument is the DECLARED type (a class object), not user text; the parser for it was "
               "already built once at declaration time"},
    "_typehints.ActionTypeHint.is_init_arg_mapping_typehint:ActionTypeHint.get_class_parser": {
        "calls": [], "raises": [],
        "why": "class_path read back from cfg, where it was stored only after passing _check_type (importable a moment ago)"},
    "_util.get_private_kwargs:data.pop": {"calls": [], "raises": [], "why": "data is the **kwargs dict of the parse method, not a Namespace"},
    "_core.ActionsContainer.add_argument_group:group_class": {"calls": [], "raises": [], "why": "declaration time"},
}

# handler type expressions that cannot be evaluated from module globals
DYNAMIC_HANDLERS = {
    "typing.RegisteredType.deserializer:self.deserializer_exceptions": ([VE, TE, AE], "default of register_type(deserializer_exceptions=...)"),
    "_util.Path.__init__:requests.HTTPError": ([OS], "requests.HTTPError derives from OSError (URL paths are not modelled)"),
}
RAISED_VARIABLES = {
    "typing.RegisteredType.deserializer:ex2": ([VE], "ex2 = ValueError(...) two lines above"),
}

# tests whose value is fixed by the harness / the scope of the statement: source text -> (value, reason)
ASSUMED_TESTS = {
    "debug_mode_active()": (False, "JSONARGPARSE_DEBUG is unset (framework.impl_env removes every JSONARGPARSE_* variable)"),
    "parser_capture.get()": (False, "capture_parser() is not in use around the parse call"),
    "callable(self._error_handler)": (False, "deprecated error_handler is not set"),
    "self._std_io": (False, "'-' (stdin) paths: stdin is closed in the harness; not modelled"),
    "self._is_url": (False, "URL paths not modelled (DESIGN 11)"),
    "self._is_fsspec": (False, "fsspec paths not modelled (DESIGN 11)"),
    "instantiate_classes": (False, "no parse method passes instantiate_classes=True"),
    "serialize": (False, "no parse method passes serialize=True (dump does; see BOUNDARY)"),
    "*.__call__:len(args) == 0": (False, "argparse calls an action with (parser, namespace, values, option_string); the zero-argument call of an "
                              "Action *instance* is the declaration-time factory idiom (add_argument(action=ActionX(...)))"),
    "_common.get_parsing_setting:name not in parsing_settings": (False, "called with a constant, existing setting name"),
    "_util.get_private_kwargs:data": (False, "API misuse guard: unknown keyword arguments given to a parse method (a programming error of the "
                                             "caller, not a parse failure; the fuzz never passes extra keywords)"),
    "_core.ArgumentParser.parse_known_args:caller not in {'jsonargparse', 'argcomplete'}": (False, "only the direct-call guard; parse_args calls it from inside the package"),
    "_namespace.Namespace.__init__:len(kwargs) != 0 or len(args) != 1 or (not isinstance(args[0], (argparse.Namespace, dict)))": (False, "API misuse guard: the package only calls Namespace(), Namespace(dict) or Namespace(ns)"),

}
# tests on the exit_on_error attribute: source text -> True if the `body` branch is the exit_on_error=True branch
EXIT_ON_ERROR_TESTS = {"not self.exit_on_error": False, "self.exit_on_error": True}

# package functions that are summarised instead of followed: qualified name -> (exception classes, reason)
BOUNDARY = {
    "_typehints.ActionTypeHint.get_class_parser": (
        [VE, IE + "+", AE, TE],
        "builds a nested parser from a class/function signature (add_class_arguments -> _signatures, "
        "_parameter_resolvers, _stubs_resolver, _postponed_annotations: source/AST/stub inspection, ~150 functions). "
        "Summary = import_object's classes + the ValueError/TypeError add_argument documents for undeclarable parameters",
    ),
    "_link_arguments.ActionLink.apply_parsing_links": (
        ["builtins.Exception+"], "runs user compute functions; the single call site wraps it in `except Exception`"),
    "_link_arguments.ActionLink.strip_link_target_keys": ([], "dump-side helper (C15)"),
    "_core.ArgumentParser.dump": (
        [], "--print_config output: dump/serialisation is the subject of C01; the call happens under lenient_check and "
            "is exercised by the fuzz (SystemExit 0 expected)"),
    "_typehints.ActionTypeHint.discard_init_args_on_class_path_change": (
        [], "called by merge_config on values that already passed _check_type: the class paths it re-imports were importable a moment ago"),
    "_util.Path._check_mode": ([], "API misuse guard: every mode string reaching it on a parse path is a constant of the package ('fr', 'fur', ...)"),
    "_util.get_import_path": ([VE], "import path of an existing object: documented ValueError when none can be determined; its "
                                    "import_module calls re-import the module the object came from"),
    "_util.get_typehint_origin": ([], "applies get_import_path to the class of a typing construct, which is always importable"),
    "_actions._ActionHelpClassPath.print_help": (
        [TE, ARGERR, EXIT0, EXIT2],
        "--<key>.help=<class>: prints the help of a subclass and exits. Its explicit raises are TypeError and ArgumentError, it ends with "
        "parser.exit() (status 0); the throw-away help parser is built WITHOUT exit_on_error=False, so arguments after the "
        "option that it rejects end in exit status 2 whatever the mode of the real parser (finding help-subparser-exit)"),
    "_completions.handle_completions": ([], "argcomplete/shtab completion not modelled (DESIGN 11)"),
    "_completions.argcomplete_namespace": ([], "argcomplete only"),
    "_core.ArgumentParser.instantiate_classes": ([], "instantiation is not parsing (C14/C16)"),
    "_typehints.ActionTypeHint.instantiate_classes": ([], "instantiation is not parsing (C14/C16)"),
    "_typehints.adapt_class_type.<instantiator_fn>": ([], "instantiation is not parsing"),
    "_common.LoggerProperty.logger": ([], "logger property"),
    "_common.parse_logger": ([VE], "logger= argument validation (declaration time)"),
    "_core.ArgumentParser.__init__": ([VE], "nested parser construction with constant arguments"),
    "_formatters.DefaultHelpFormatter.add_yaml_comments": ([], "--print_config=comments formatting (DESIGN 11)"),
    "_postponed_annotations.get_return_type": ([], "return-type lookup for callables; failures are logged, returns None"),
    "_postponed_annotations.get_types": ([], "type lookup; wrapped and logged by callers"),
    "_optionals.validate_annotated": ([VE], "pydantic Annotated validators not modelled; ValidationError is a ValueError"),
    "_signatures.dataclass_to_dict": ([], "dataclass instance defaults -> dict"),
    "_typehints.get_all_subclass_paths": ([], "help/completion listing of subclasses; swallows import errors"),
    "_typehints.resolve_class_path_by_name": ([], "name -> class_path lookup over known subclasses; returns its input when nothing matches"),
    "_parameter_resolvers.get_signature_parameters": ([], "only reached behind get_class_parser / for callable type hints; logs and returns [] on failure"),
    "typing.pydantic_deserializer": ([], "pydantic not modelled"),
    "_loaders_dumpers.get_yaml_default_loader": ([], "builds (once) the SafeLoader subclass with the custom float resolver"),
    "_loaders_dumpers.get_yaml_default_dumper": ([], "builds (once) the SafeDumper subclass"),
    "_deprecated.deprecated_skip_check": ([], "reads the deprecated skip_check kwarg; warns"),
    "_deprecated.deprecation_warning": ([], "warns"),
    "_deprecated.PathDeprecations._deprecated_kwargs": ([], "warns about deprecated Path kwargs"),
    "_formatters.get_env_var": ([], "pure string computation of the environment variable name"),
    "_signatures.SignatureArguments.add_class_arguments": (
        [VE, TE], "only from --*.help (print_help builds a throw-away parser) and behind get_class_parser: documented ValueError "
                  "for non-classes / undeclarable parameters"),
    "typing.register_pydantic_type": ([], "pydantic not modelled"),
}
# modules never followed: a call resolved into them must be in BOUNDARY (or only reachable by method-name
# over-approximation, in which case the candidate is dropped: listed in SKIPPED_BY_NAME at translation time)
BOUNDARY_MODULES = {
    "_deprecated": "deprecated API (DESIGN 11)",
    "_jsonnet": "jsonnet not modelled (DESIGN 11)",
    "_jsonschema": "jsonschema actions not modelled (DESIGN 11)",
    "_completions": "completion not modelled (DESIGN 11)",
    "_cli": "auto_cli is C12",
    "_signatures": "behind get_class_parser",
    "_parameter_resolvers": "behind get_class_parser",
    "_stubs_resolver": "behind get_class_parser",
    "_postponed_annotations": "behind get_class_parser",
    "_formatters": "help formatting (DESIGN 11)",
}

# functions whose subscripts/`in` tests are on plain dicts/lists (never a Namespace): no __getitem__ edge
PLAIN_SUBSCRIPT_FUNCS = {
    "_util.get_private_kwargs": "data/kwargs are the **kwargs dict of the parse method",
}

# Subscripts (x[k], x[k]=v, del x[k], k in x) and calls of methods whose name a builtin container also has (get, pop,
# update, items, keys, values) are given an edge to the Namespace method only when the receiver is NAMED like a
# configuration object. (Resolving every subscript of the package to Namespace.__getitem__ makes sys.argv[1:] raise
# NSKeyError.) Limit: a Namespace held under another name is missed; the fuzz half covers it.
NAMESPACE_RECEIVER = (r"^(cfg|ns|namespace|defaults|parent|self|.*cfg.*|.*namespace.*|.*_ns|prev_val|val|value|values|init_args|"
                      r"subclass_spec|.*_val|.*_value|loaded_value|data|branch|.*branch.*)$")

# implicit exceptions found by the fuzz (the faithful model reproduces them): (function, class, what, probe).
# They are OBSERVED facts, not derived from the source: tie/props/c03.translate() runs the probe (a case of the
# correspondence harness, exit_on_error=False) against the implementation at every run and keeps the site in the IR iff
# the probe still raises that class with that function on the traceback — so a repaired tree regenerates an IR without it.
IMPLICIT_SITES = [
    ("_loaders_dumpers.load_value", AE,
     "value.strip() on a non-str: argparse hands `--cfg=--` to ActionConfigFile as the list []; Path([]) fails with TypeError and "
     "apply_config calls load_value([]) -> 'list' object has no attribute 'strip'",
     {"shape": "basic", "entry": "parse_args", "input": ["--cfg=--"]}),
    ("_typehints.adapt_typehints", "builtins.RecursionError",
     "[alias] a self-referential YAML alias (&x [*x]) under type Any makes adapt_classes_any / adapt_typehints recurse without bound",
     {"shape": "basic", "entry": "parse_args", "input": ["--any=&x [*x]"]}),
    ("_namespace.recreate_branches", "builtins.RecursionError",
     "[alias] a self-referential YAML alias anywhere in a config makes Namespace.clone() -> recreate_branches recurse without bound",
     {"shape": "plain", "entry": "parse_args", "input": ["--cfg=rec.yaml"]}),
    ("_typehints.adapt_typehints", AE,
     "the append key `<list of dataclass>+` in a config object/text: merge_config -> apply_appends -> adapt_typehints -> "
     "get_class_parser runs outside any parser_context, parent_parser.get() is None -> 'NoneType' object has no attribute 'logger'",
     {"shape": "dataclass", "entry": "parse_object", "input": {"ldc+": 2.5}}),
    ("_typehints.ActionTypeHint._check_type", "builtins.RuntimeError",
     "a mapping given where a list is expected (nargs='+' option): `for num, val in enumerate(value)` iterates the dict's keys and "
     "`value[num] = val` inserts new keys -> 'dictionary changed size during iteration' (needs keys the item type accepts, e.g. {1: 2})",
     {"shape": "plain", "entry": "parse_object", "input": {"m": {"$": "items", "v": [[1, 2]]}}}),
    ("_typehints.adapt_typehints", "builtins.OverflowError",
     "float(val) for an int too large for a float (a 400-digit integer given to a float option): OverflowError is an ArithmeticError, "
     "not a ValueError",
     {"shape": "basic", "entry": "parse_args", "input": ["--f=1" + "0" * 400]}),
    ("_core.ArgumentParser._check_value_key", "builtins.OverflowError",
     "a plain type= callable such as int applied to a float infinity loaded from the config (it: 1e999)",
     {"shape": "plain", "entry": "parse_string", "input": "it: 1e999\n"}),
    ("_actions.ActionConfigFile.apply_config", AE,
     "cfg[dest].append(cfg_path) when the config key itself was given a scalar by a config file (default config `cfg: x`)",
     {"shape": "basic", "entry": "parse_args", "input": ["--cfg=good.yaml"], "dcf": "cfg: empty.yaml\n"}),
    ("_actions._ActionPrintConfig.print_config_if_requested", "yaml.representer.RepresenterError",
     "--print_config after `--any.k=v` (type Any): the NestedArg tuple is stored as the value and cannot be dumped",
     {"shape": "basic", "entry": "parse_args", "input": ["--any.firstweekday=[1, 2]", "--print_config"]}),
    ("_core.ArgumentParser._check_value_key", "builtins.AssertionError",
     "`assert isinstance(vals, list)` for an option with nargs='+' and choices that a config gives a scalar (argv always delivers a list)",
     {"shape": "plain", "entry": "parse_string", "input": "mc: x\n"}),
    ("_loaders_dumpers._has_reference_cycle", "builtins.RecursionError",
     "[deep] a well-formed value nested a few thousand levels deep: the recursive walk over the loaded value exhausts the stack",
     {"shape": "basic", "entry": "parse_args", "input": ["--any=" + "[" * 3000 + "]" * 3000]}),
    ("_namespace.recreate_branches", "builtins.RecursionError",
     "[deep] a config OBJECT nested a few thousand levels deep: Namespace.clone() -> recreate_branches exhausts the stack",
     {"shape": "basic", "entry": "parse_object", "input": {"a": {"$": "deep", "n": 3000}}}),
    ("_util.Path.get_content", AE,
     "the path '-' (read the config from stdin) in a process whose stdin is closed (sys.stdin is None): get_cached_stdin calls "
     "sys.stdin.read()",
     {"shape": "basic", "entry": "parse_path", "input": "-", "stdin": "none"}),
    ("_actions._ActionSubCommands.handle_subcommands", AE,
     "[subcommand] a config names a subcommand that is not declared (--cfg={subcommand: zzz}): action._name_parser_map.get(s) is None "
     "-> 'NoneType' object has no attribute '_subparsers'",
     {"shape": "subcommands", "entry": "parse_args", "input": ["--cfg={subcommand: zzz}"]}),
    ("_core.ArgumentParser.merge_config", AE,
     "[subcommand] a config puts a scalar under a subcommand key (fit: 5): cfg.get(key).clone() -> 'int' object has no attribute 'clone'",
     {"shape": "subcommands", "entry": "parse_string", "input": "subcommand: fit\nfit: 5\n"}),
    ("_actions._ActionSubCommands.__call__", AE,
     "[subcommand] --cfg puts a list under a subcommand key and the subcommand is then given on the command line",
     {"shape": "subcommands", "entry": "parse_args", "input": ["--cfg={fit: [1]}", "fit"]}),
    ("_core.ArgumentParser._check_value_key", AE,
     "[subcommand] a config puts a scalar under the key of ANOTHER subcommand than the selected one: validate -> subparser.validate(value)",
     {"shape": "subcommands", "entry": "parse_args", "input": ["--cfg={test: x, fit: {p: 1}}"]}),
    ("_typehints.ActionTypeHint.__call__", AE,
     "type Any holding a class_path-shaped mapping with init_args that a later value for the same option replaces by another "
     "class_path: discard_init_args_on_class_path_change / prev_val.init_args assume a subclass-typed option",
     {"shape": "basic", "entry": "parse_args",
      "input": ["--any={class_path: calendar.Calendar, init_args: {firstweekday: 1}}", "--any={class_path: nomod.X}"]}),
    ("_loaders_dumpers.json_load", "builtins.RecursionError",
     "[deep] parser_mode='json': json.loads itself exhausts the stack on a few thousand nested brackets",
     {"shape": "json", "entry": "parse_string", "input": "[" * 3000 + "]" * 3000}),
    ("_loaders_dumpers.json_load", VE,
     "parser_mode='json': an integer literal longer than CPython's 4300-digit int<->str limit makes json.loads raise a plain ValueError "
     "(not JSONDecodeError), which get_loader_exceptions('json') does not anticipate",
     {"shape": "json", "entry": "parse_string", "input": "9" * 4400}),
    ("typing.RegisteredType.deserializer", "decimal.InvalidOperation",
     "[registered] decimal.Decimal is registered with the default deserializer_exceptions (ValueError, TypeError, AttributeError) but "
     "Decimal('abc') raises decimal.InvalidOperation, an ArithmeticError",
     {"shape": "registered", "entry": "parse_args", "input": ["--dec=abc"]}),
    ("typing.RegisteredType.deserializer", "builtins.OverflowError",
     "[registered] the timedelta deserializer builds timedelta(days=99999999999): OverflowError, an ArithmeticError",
     {"shape": "registered", "entry": "parse_args", "input": ["--td=99999999999 days, 0:0:0"]}),
    ("_loaders_dumpers.yaml_load", AE,
     "[tag] an explicit !!timestamp tag on a scalar that is not a timestamp: PyYAML's construct_yaml_timestamp calls .groupdict() on a "
     "failed match (the loader removes only the IMPLICIT timestamp resolver); AttributeError is not a YAMLError",
     {"shape": "basic", "entry": "parse_args", "input": ["--any=!!timestamp abc"]}),
    ("_core.ArgumentParser._apply_actions", AE,
     "[non-mapping] parse_object given something that is not a dict/Namespace: cfg.__dict__ -> 'list' object has no attribute '__dict__'",
     {"shape": "basic", "entry": "parse_object", "input": [1]}),
    ("_actions._ActionPrintConfig.print_config_if_requested", VE,
     "[huge-int] --print_config with an int value beyond CPython's 4300-digit int->str limit (given in hex/octal/binary, which parses "
     "fine): the YAML dump calls str(int) -> ValueError",
     {"shape": "basic", "entry": "parse_args", "input": ["--a=0x" + "f" * 5000, "--print_config"]}),
    ("_core.ArgumentParser._check_value_key", VE,
     "[huge-int] the `not among choices` message renders a >4300-digit int that a config gave in hex (YAML loads 0xfff... as int)",
     {"shape": "plain", "entry": "parse_string", "input": "ch: 0x" + "f" * 5000 + "\n"}),
    ("_typehints.ActionTypeHint._check_type", VE,
     "[huge-int] the type-error message of a typed option renders a >4300-digit int found inside a wrong-shaped value",
     {"shape": "plain", "entry": "parse_string", "input": "m:\n  +: 0x" + "f" * 5000 + "\n"}),
    ("_actions._ActionSubCommands.get_subcommands", VE,
     "[huge-int] the `expected subcommand to be one of` message renders a >4300-digit int given as the sub-command name",
     {"shape": "subcommands", "entry": "parse_string", "input": "subcommand: 0x" + "f" * 5000 + "\n"}),
    ("_typehints.adapt_classes_any", AE,
     "[any-spec] type Any: a class_path mapping whose init_args is a non-empty non-mapping ({class_path: C, init_args: 3}): "
     "init_args.__dict__ -> 'int' object has no attribute '__dict__' (the surrounding try only covers adapt_class_type)",
     {"shape": "basic", "entry": "parse_env", "input": {"APP_ANY": "{class_path: calendar.Calendar, init_args: 3}"}}),
    ("_typehints.ActionTypeHint.add_sub_defaults", "builtins.RecursionError",
     "[pairs] a self-referential YAML alias whose cycle passes through a TUPLE (!!pairs / !!omap build lists of tuples): the cycle check "
     "of yaml_load descends dicts and lists only, so the value gets through and holds_subclass_spec (type Any) recurses without bound",
     {"shape": "basic", "entry": "parse_args", "input": ["--any=&x !!pairs [k: *x]"]}),
    ("_namespace.recreate_branches", "builtins.RecursionError",
     "[pairs] the same value anywhere in a config text / file / object: Namespace.clone() -> recreate_branches walks tuples too",
     {"shape": "basic", "entry": "parse_string", "input": "any: &x !!omap [k: *x]\n"}),
    ("_actions._ActionPrintConfig.__call__", "builtins.IndexError",
     "argparse hands `--print_config=--` to the action as the empty list: value[0] -> list index out of range",
     {"shape": "basic", "entry": "parse_args", "input": ["--print_config=--"]}),
]

EXTRA_ROOTS = []
# classes added to the universe so that "or any subclass" expands to the concrete classes the fuzz can observe
EXTRA_UNIVERSE = [
    "builtins.FileNotFoundError", "builtins.PermissionError", "builtins.IsADirectoryError", "builtins.NotADirectoryError",
    "builtins.UnicodeDecodeError", "builtins.UnicodeError", "builtins.ModuleNotFoundError", "builtins.RecursionError", "builtins.RuntimeError", "builtins.OverflowError", "yaml.representer.RepresenterError", "decimal.InvalidOperation", "builtins.ArithmeticError",
    "builtins.IndexError", "builtins.KeyError", "builtins.StopIteration", "builtins.NotImplementedError",
    "json.decoder.JSONDecodeError", "yaml.error.YAMLError", "yaml.error.MarkedYAMLError", "yaml.scanner.ScannerError",
    "yaml.parser.ParserError", "yaml.composer.ComposerError", "yaml.constructor.ConstructorError", "yaml.reader.ReaderError",
    "argparse.ArgumentError", "argparse.ArgumentTypeError", "builtins.SystemExit", "builtins.KeyboardInterrupt",
    "jsonargparse._namespace.NSKeyError", "jsonargparse._util.PathError", "builtins.AssertionError",
]
NAMED_CLASSES = {
    "ArgumentError": "argparse.ArgumentError", "SystemExit": "builtins.SystemExit", "SystemExit0": EXIT0, "SystemExit2": EXIT2,
    "TypeError": TE, "ValueError": VE, "KeyError": "builtins.KeyError", "AttributeError": AE, "OSError": OS,
    "RecursionError": "builtins.RecursionError", "PathError": "jsonargparse._util.PathError",
}

# -----------------------------------------------------------------------------------------------------------
# known findings: finding class number -> key; key -> raise sites (function, class-or-superclass, kind prefix)
# The guard of the theorems is: "an escaping site is either in the allowed channel or is one of exactly these sites".
# -----------------------------------------------------------------------------------------------------------
PATHERR = "jsonargparse._util.PathError"
FINDING_KEYS = {
    1: "cfg-value-not-str",
    2: "recursive-yaml-alias",
    3: "config-content-unreadable",
    4: "path-nul-byte",
    5: "parse-path-patherror",
    6: "type-import-error",
    7: "argument-type-error",
    8: "help-subparser-exit",
    9: "default-config-argument-error",
    10: "nested-parser-argument-error",
    11: "usage-formatting-reraises",
    12: "append-without-parser-context",
    13: "list-option-given-mapping",
    14: "overflow-error",
    15: "cfg-key-in-config",
    16: "nested-key-on-any-print-config",
    17: "nargs-choices-scalar",
    18: "deep-nesting-recursion",
    19: "closed-stdin-dash",
    20: "subcommand-value-not-mapping",
    21: "any-class-path-override",
    22: "print-config-value-empty",
    23: "json-int-digit-limit",
    24: "registered-type-arithmetic-error",
    25: "yaml-timestamp-tag",
    26: "parse-object-non-mapping",
    27: "huge-int-rendering",
    28: "cwd-deleted",
    29: "any-class-spec-init-args-not-mapping",
    30: "yaml-alias-cycle-through-pairs",
}
# key -> [(function, class or superclass, kind prefix, modes)]; modes: "t" = only when exit_on_error=True, "f" = only
# when False, "tf" = both. A site is a finding site only if it ESCAPES an entry point and its class is not the
# allowed channel of that mode; everything else that escapes is an alarm.
FINDING_SITES = {
    "cfg-value-not-str": [("_loaders_dumpers.load_value", AE, "implicit", "tf")],
    "recursive-yaml-alias": [("_typehints.adapt_typehints", "builtins.RecursionError", "implicit: [alias]", "tf"),
                             ("_namespace.recreate_branches", "builtins.RecursionError", "implicit: [alias]", "tf")],
    "config-content-unreadable": [("_util.Path.get_content", OS, "ext:open", "tf"), ("_util.Path.get_content", VE, "ext:open", "tf"),
                                  ("_util.Path.get_content", OS, "ext:.read", "tf"), ("_util.Path.get_content", VE, "ext:.read", "tf")],
    "path-nul-byte": [("_util.Path.__init__", VE, "ext:os.", "tf")],
    "parse-path-patherror": [("_util.Path.__init__", PATHERR, "raise", "tf")],
    "type-import-error": [("_util.import_object", IE, "ext:builtins.__import__", "tf"), ("_util.import_object", AE, "dyn:getattr", "tf")],
    "argument-type-error": [("_core.ArgumentParser._check_value_key", "argparse.ArgumentTypeError", "dyn:action.type", "tf")],
    "help-subparser-exit": [("_actions._ActionHelpClassPath.print_help", EXIT2, "boundary:", "f")],
    "default-config-argument-error": [("_core.ArgumentParser.get_defaults", ARGERR, "raise", "t")],
    "nested-parser-argument-error": [("_core.ArgumentParser.error", ARGERR, "raise", "t")],
    "usage-formatting-reraises": [("_core.ArgumentParser.print_usage", "builtins.Exception", "relabel:", "t")],
    "append-without-parser-context": [("_typehints.adapt_typehints", AE, "implicit", "tf")],
    "nargs-choices-scalar": [("_core.ArgumentParser._check_value_key", "builtins.AssertionError", "implicit", "tf")],
    "deep-nesting-recursion": [("_loaders_dumpers._has_reference_cycle", "builtins.RecursionError", "implicit: [deep]", "tf"),
                               ("_namespace.recreate_branches", "builtins.RecursionError", "implicit: [deep]", "tf"),
                               ("_loaders_dumpers.json_load", "builtins.RecursionError", "implicit: [deep]", "tf")],
    "closed-stdin-dash": [("_util.Path.get_content", AE, "implicit", "tf")],
    "subcommand-value-not-mapping": [("_actions._ActionSubCommands.handle_subcommands", AE, "implicit: [subcommand]", "tf"),
                                     ("_core.ArgumentParser.merge_config", AE, "implicit: [subcommand]", "tf"),
                                     ("_actions._ActionSubCommands.__call__", AE, "implicit: [subcommand]", "tf"),
                                     ("_core.ArgumentParser._check_value_key", AE, "implicit: [subcommand]", "tf")],
    "any-class-path-override": [("_typehints.ActionTypeHint.__call__", AE, "implicit", "tf")],
    "registered-type-arithmetic-error": [("typing.RegisteredType.deserializer", "builtins.ArithmeticError", "implicit: [registered]", "tf")],
    "yaml-timestamp-tag": [("_loaders_dumpers.yaml_load", AE, "implicit: [tag]", "tf")],
    "any-class-spec-init-args-not-mapping": [("_typehints.adapt_classes_any", AE, "implicit: [any-spec]", "tf")],
    "yaml-alias-cycle-through-pairs": [("_typehints.ActionTypeHint.add_sub_defaults", "builtins.RecursionError", "implicit: [pairs]", "tf"),
                                       ("_namespace.recreate_branches", "builtins.RecursionError", "implicit: [pairs]", "tf")],
    "parse-object-non-mapping": [("_core.ArgumentParser._apply_actions", AE, "implicit: [non-mapping]", "tf")],
    "huge-int-rendering": [("_actions._ActionPrintConfig.print_config_if_requested", VE, "implicit: [huge-int]", "tf"),
                           ("_core.ArgumentParser._check_value_key", VE, "implicit: [huge-int]", "tf"),
                           ("_typehints.ActionTypeHint._check_type", VE, "implicit: [huge-int]", "tf"),
                           ("_actions._ActionSubCommands.get_subcommands", VE, "implicit: [huge-int]", "tf")],
    "cwd-deleted": [("_util.Path.__init__", OS, "ext:os.getcwd", "tf"), ("_util.change_to_path_dir", OS, "ext:os.getcwd", "tf")],
    "json-int-digit-limit": [("_loaders_dumpers.json_load", VE, "implicit", "tf")],
    "print-config-value-empty": [("_actions._ActionPrintConfig.__call__", "builtins.IndexError", "implicit", "tf")],
    "list-option-given-mapping": [("_typehints.ActionTypeHint._check_type", "builtins.RuntimeError", "implicit", "tf")],
    "overflow-error": [("_typehints.adapt_typehints", "builtins.OverflowError", "implicit", "tf"),
                       ("_core.ArgumentParser._check_value_key", "builtins.OverflowError", "implicit", "tf")],
    "cfg-key-in-config": [("_actions.ActionConfigFile.apply_config", AE, "implicit", "tf")],
    "nested-key-on-any-print-config": [("_actions._ActionPrintConfig.print_config_if_requested", "yaml.representer.RepresenterError", "implicit", "tf")],
}
